#!/bin/bash
# run every property's quick check in /verif against /repo, recording floors and evidence (sequential)
cd /verif
for p in C08 C04 C09 C05 C01 C02 C03 C06 C07 C10 C11 C12 C13 C14 C15 C16 C17 C18 C19 C20; do
  S=$(date +%s)
  ./check $p --tier quick --record-floors > /tmp/final_$p.log 2>&1; RC=$?
  echo "$p rc=$RC $(( $(date +%s) - S ))s $(grep -c '^VIOLATION' /tmp/final_$p.log) violations; $(grep -E '^C[0-9]+ tier' /tmp/final_$p.log)"
done
