#!/usr/bin/env python3
"""regenerate /verif/MANIFEST.json from lib/table.py (claimed properties) and properties.jsonl"""
import json, os, sys, subprocess
V = os.path.dirname(os.path.dirname(os.path.abspath(__file__)))
sys.path.insert(0, os.path.join(V, "lib"))
import table
import props_meta
props = [json.loads(l) for l in open(os.path.join(V, "properties.jsonl"))]
hooks_commits = subprocess.run(["git", "-C", "/repo", "log", "--format=%h", "--grep=^verification hook"], capture_output=True, text=True).stdout.split()
checks, na = [], []
for p in props:
    pid = p["id"]
    if pid in table.PROPS and not table.PROPS[pid].get("unclaimed"):
        d = table.PROPS[pid]
        checks.append({
            "property_id": pid,
            "quick_cmd": "./check %s --tier quick" % pid,
            "thorough_cmd": "./check %s --tier thorough" % pid,
            "evidence_file": "/verif/evidence/%s.json" % pid,
            "replay_cmd_template": "./check %s --replay {path}" % pid,
            "engine": "cbmc-dfcc",
            "technique": d.get("technique", "contract-based deductive verification: CBMC code contracts (requires/ensures/assigns) enforced per function on the real C code with goto-instrument --dfcc, callees replaced by their proved contracts; SAT back end cadical"),
            "level_claimed": {"category": props_meta.META[pid][0], "text": props_meta.META[pid][1], "design_ref": "DESIGN.md section 4, " + pid},
            "level_note": props_meta.COMMON_NOTE,
        })
    else:
        na.append({"property_id": pid, "reason": table.NOT_CLAIMED.get(pid, "check not built yet")})
m = {"version": 1,
     "setup_cmd": "true",
     "hooks": {"guard": "D3VI1_LLTDRESPONDER_VERIF",
               "enable": "verification builds only: goto-cc / gcc -DD3VI1_LLTDRESPONDER_VERIF -I/verif/contracts (the repository's own build never defines it)",
               "baseline_off_cmd": "make -C /repo test",
               "source_commits": hooks_commits, "add_only": True},
     "engines": [{"name": "cbmc-dfcc", "path": "/verif/check", "serves_properties": [c["property_id"] for c in checks],
                  "kind_free_text": "driver lib/driver.py: goto-cc -> goto-instrument --dfcc (enforce / replace contracts) -> cbmc (cadical), sharded; native replay of counterexamples with gcc + ASan/UBSan"}],
     "checks": checks, "not_applicable": na,
     "notes": "Known findings: /verif/known-findings.txt. Seeded changes: /verif/seeded/. DESIGN.md describes approach, assumptions and what is bounded."}
json.dump(m, open(os.path.join(V, "MANIFEST.json"), "w"), indent=1)
print("claimed:", [c["property_id"] for c in checks])
