#!/bin/bash
# usage: seed_confirm2.sh <property> <A|B> <seed-number>
# confirms change A or B of the second sub-agent round in its scratch worktree /tmp/s2_<property>:
#   without the patch: demo passes; with the patch: `make test` passes and the demo fails.
# Files it under /verif/seeded/agent-<property>-<n>/ (patch.diff, demo.c, run.sh, NOTES.agent.md, logs).
set -u
PROP=$1; X=$2; N=$3
WT=/tmp/s2_$PROP; NAME=agent-$PROP-$N; OUT=/verif/seeded/$NAME
[ -f $WT/demo/$X/patch.diff ] || { echo "$NAME: no demo/$X/patch.diff"; exit 2; }
mkdir -p $OUT
cd $WT || exit 2
git checkout -q -- lltdResponder os
bash demo/$X/run.sh > $OUT/demo_without.log 2>&1; R0=$?
git apply demo/$X/patch.diff || { echo "$NAME: patch does not apply"; exit 2; }
git diff -- lltdResponder os > $OUT/patch.diff
make test > $OUT/make_test.log 2>&1; TRC=$?
T1=$(grep -c "PASSED" $OUT/make_test.log); TF=$(grep -c "FAILED" $OUT/make_test.log)
bash demo/$X/run.sh > $OUT/demo_with.log 2>&1; R1=$?
git checkout -q -- lltdResponder os
rm -rf build
cp demo/$X/demo.c demo/$X/run.sh $OUT/ 2>/dev/null
for f in demo/$X/*.c demo/$X/*.h; do [ -f "$f" ] && cp "$f" $OUT/; done
cp demo/$X/NOTES.md $OUT/NOTES.agent.md 2>/dev/null
echo "$NAME make-test rc=$TRC PASSED-lines=$T1 FAILED-lines=$TF demo_without=$R0 demo_with=$R1"
if [ $TRC -eq 0 ] && [ $R0 -eq 0 ] && [ $R1 -ne 0 ]; then echo "$NAME CONFIRMED"; else echo "$NAME NOT-CONFIRMED"; exit 1; fi
