#!/bin/bash
# run every seed of /verif/seeded against a scratch copy of /repo with the targeted check (sequential)
cd /verif
r() { tools/seed_run_copy.sh "$@"; }
r agent-C01-1 C01 send_ltr
r agent-C02-1 C02 parse_query_symmtu parse_query_mtu72
r agent-C03-1 C03 parse_frame
r agent-C04-1 C04 tlv_writers
r agent-C05-1 C05 parse_frame
r agent-C06-1 C06 parse_emit
r agent-C07-1 C07 parse_query_mtu60 parse_query_symmtu
r agent-C08-1 C08 send_ltr
r agent-C09-1 C09 parse_frame
r agent-C10-1 C10 parse_probe c10_peer
r agent-C11-1 C11 derive
r agent-C12-1 C12 tick
r agent-C13-1 C13 tick
r agent-C14-1 C14 map_step
r agent-C15-1 C15 sess_step
r agent-C16-1 C16 tab_find tab_add
r agent-C17-1 C17 parse_frame
r agent-C18-1 C18 ctor_mapping ctor_enum
r agent-C19-1 C19 parse_query_mtu60 parse_probe
r agent-C20-1 C20
r revert-b8d43b1 C13 band_update
r revert-e405fdd C18 ctor_mapping ctor_enum ctor_session
r revert-e9a0a2f C15 sess_step
r revert-7180899 C11 derive
r revert-7c834c3 C10 send_probe c10_peer
r revert-c9aaadf C06 parse_emit
r revert-df593bb C19 parse_probe
r revert-2008281 C07 parse_query_mtu60
r revert-665ec17 C05 parse_frame
r revert-45a7243 C01 tlv_writers
