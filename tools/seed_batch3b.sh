#!/bin/bash
# re-run the round-2 seeds that the first run missed / could not decide, against the strengthened checks
cd /verif
r() { tools/seed_run_copy.sh "$@" & while [ $(jobs -r | wc -l) -ge 2 ]; do sleep 2; done; }
r agent-C02-2 C02 tlv_determinism
r agent-C05-2 C05 parse_qlt
r agent-C06-2 C06 parse_emit_strict_mtu76 parse_emit_mtu76
r agent-C06-3 C06 parse_frame
r agent-C09-2 C09 parse_qlt
r agent-C09-3 C09 parse_probe
r agent-C12-2 C12 tick
r agent-C02-3 C02 send_ltr
r agent-C10-2 C10
r agent-C04-2 C04 hello_gate
wait
