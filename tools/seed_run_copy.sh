#!/bin/bash
# usage: seed_run_copy.sh <seed-name> <property> [harness...] — run a check against a scratch copy of /repo with the seed applied
# (does not touch /repo: the driver reads the tree named by VERIF_REPO)
set -u
NAME=$1; PROP=$2; shift; shift
WT=/tmp/repo_seed_$$
git -C /repo worktree add -q --detach $WT HEAD || exit 2
git -C $WT apply /verif/seeded/$NAME/patch.diff || { echo "$NAME: patch does not apply"; git -C /repo worktree remove --force $WT; exit 2; }
ONLY=""; for o in "$@"; do ONLY="$ONLY --only $o"; done
cd /verif
VERIF_REPO=$WT VERIF_NO_EVIDENCE=1 VERIF_NO_REPLAY_CLEAN=1 timeout 2400 ./check $PROP $ONLY > /verif/seeded/$NAME/check_$PROP.log 2>&1; RC=$?
git -C /repo worktree remove --force $WT
echo "$NAME: check $PROP $ONLY rc=$RC"; grep -E "VIOLATION|failed obligation|UNDECIDED" /verif/seeded/$NAME/check_$PROP.log | cut -c1-230 | head -4
