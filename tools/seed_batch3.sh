#!/bin/bash
# run the targeted checks against the round-2 agent seeds (scratch copies of /repo; 2 at a time)
cd /verif
r() { tools/seed_run_copy.sh "$@" & while [ $(jobs -r | wc -l) -ge 2 ]; do sleep 2; done; }
r agent-C01-2 C01 parse_emit
r agent-C01-3 C01 parse_probe parse_query parse_frame
r agent-C02-2 C02 tlv_writers
r agent-C02-3 C02 send_ltr
r agent-C03-2 C03 answer_hello_w0_h7_s0 parse_frame
r agent-C03-3 C03 parse_frame
r agent-C04-2 C04
r agent-C04-3 C04 linux_getters
r agent-C05-2 C05
r agent-C05-3 C05 parse_frame
r agent-C06-2 C06
r agent-C06-3 C06
r agent-C07-2 C07 parse_probe
r agent-C07-3 C07 parse_query
r agent-C08-2 C08 send_ltr
r agent-C08-3 C08
r agent-C09-2 C09
r agent-C09-3 C09
r agent-C10-2 C10 send_probe
r agent-C10-3 C10
r agent-C11-2 C11 derive
r agent-C11-3 C11
r agent-C12-2 C12 tick
r agent-C12-3 C12 tick
r agent-C14-2 C14 map_step
r agent-C14-3 C14
r agent-C16-2 C16 tab_add
r agent-C16-3 C16 tick
r agent-C17-2 C17
r agent-C17-3 C17
r agent-C18-2 C18
r agent-C18-3 C18 send_probe
r agent-C19-2 C19 parse_probe
r agent-C19-3 C19 parse_frame
wait
