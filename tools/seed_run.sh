#!/bin/bash
# usage: seed_run.sh <seed-name> <property> [more properties...]  — apply /verif/seeded/<seed>/patch.diff to /repo, run the checks, undo
set -u
NAME=$1; shift
P=/verif/seeded/$NAME/patch.diff
cd /verif
git -C /repo apply $P || { echo "patch does not apply"; exit 2; }
for PROP in "$@"; do
  VERIF_NO_EVIDENCE=1 timeout 3000 ./check $PROP > /verif/seeded/$NAME/check_$PROP.log 2>&1; RC=$?
  echo "$NAME: check $PROP rc=$RC"; grep -E "VIOLATION|failed obligation|UNDECIDED" /verif/seeded/$NAME/check_$PROP.log | cut -c1-220 | head -6
done
git -C /repo checkout -- .
