#!/usr/bin/env python3
"""write /verif/seeded/INDEX.md from the meta.json files"""
import json, os, glob
S = os.path.join(os.path.dirname(os.path.dirname(os.path.abspath(__file__))), "seeded")
import re
rows = []
for d in sorted(glob.glob(os.path.join(S, "*", "meta.json"))):
    m = json.load(open(d))
    # what the checks actually reported against this seed (from the logs of the runs)
    tags, rcs = [], []
    for lg in sorted(glob.glob(os.path.join(os.path.dirname(d), "check*.log"))):
        txt = open(lg, errors="replace").read()
        for mm in re.finditer(r"failed obligation: harness=(\S+) \S+ \[([^\]]+)\]", txt):
            t = "%s:%s" % (mm.group(1), mm.group(2))
            if t not in tags:
                tags.append(t)
        for mm in re.finditer(r"VIOLATION property=(C\d+) replay=\S*/(C\d+-extra-[^ ]+?)-[0-9a-f]{8}\.json", txt):
            t = mm.group(2)
            if t not in tags:
                tags.append(t)
        n_v = len(re.findall(r"^VIOLATION", txt, flags=re.M))
        rcs.append("%s: %d VIOLATION line(s)%s" % (os.path.basename(lg)[6:-4], n_v, ", UNDECIDED" if "UNDECIDED" in txt and n_v == 0 else ""))
    m["reported"] = "; ".join(rcs) + (" — failing obligations: " + ", ".join(tags[:6]) if tags else "")
    rows.append((os.path.basename(os.path.dirname(d)), m))
with open(os.path.join(S, "INDEX.md"), "w") as f:
    f.write("# Seeded changes\n\nEach directory holds `patch.diff` (applies to /repo HEAD), the demonstration (`demo.c`, `run.sh`; for reverts the fix\n"
            "commit itself), `meta.json` and the log of the check run against it.  None of these changes is committed to /repo.\n\n")
    f.write("| seed | property | change | needs, to manifest | caught by (as recorded when the seed was filed) | last check run against it |\n|---|---|---|---|---|---|\n")
    for n, m in rows:
        f.write("| %s | %s | %s | %s | %s |\n" % (n, m.get("property"), m.get("change", "").replace("|", "/"), m.get("needs", "").replace("|", "/"),
                                                 m.get("detected_by", "").replace("|", "/") + " | " + m.get("reported", "").replace("|", "/")))
print(len(rows), "seeds")
