#!/usr/bin/env python3
"""write /verif/seeded/INDEX.md from the meta.json files"""
import json, os, glob
S = os.path.join(os.path.dirname(os.path.dirname(os.path.abspath(__file__))), "seeded")
rows = []
for d in sorted(glob.glob(os.path.join(S, "*", "meta.json"))):
    m = json.load(open(d))
    rows.append((os.path.basename(os.path.dirname(d)), m))
with open(os.path.join(S, "INDEX.md"), "w") as f:
    f.write("# Seeded changes\n\nEach directory holds `patch.diff` (applies to /repo HEAD), the demonstration (`demo.c`, `run.sh`; for reverts the fix\n"
            "commit itself), `meta.json` and the log of the check run against it.  None of these changes is committed to /repo.\n\n")
    f.write("| seed | property | change | needs, to manifest | caught by |\n|---|---|---|---|---|\n")
    for n, m in rows:
        f.write("| %s | %s | %s | %s | %s |\n" % (n, m.get("property"), m.get("change", "").replace("|", "/"), m.get("needs", "").replace("|", "/"),
                                                 m.get("detected_by", "").replace("|", "/")))
print(len(rows), "seeds")
