#!/usr/bin/env python3
"""fill meta.json 'detected_by' of the second-round agent seeds from the logs of the check runs (check_*.log; first_run_*.log = the
run against the machinery as it was BEFORE it was strengthened because of that seed)"""
import json, glob, os, re
S = os.path.join(os.path.dirname(os.path.dirname(os.path.abspath(__file__))), "seeded")
WHY = {
 "agent-C02-2": "the failing clause C04.bssid belonged to C04 only; the determinism clause C02.writer-deterministic (harness tlv_determinism) was added",
 "agent-C02-3": "first run UNDECIDED (exit 2): C02's obligations were UNKNOWN behind the failed fatal C01 check; the second pass (built-in checks off for the UNKNOWN obligations) was added to the driver",
 "agent-C04-2": "wireless Hellos were not decided at the Hello level (memory); the gate instance hello_gate was added",
 "agent-C05-2": "the C05 check listed only parse_frame, so the mapper clauses of the handler contracts it relies on were not proved by it; the handler harnesses were added to C05",
 "agent-C06-2": "no MTU instance with (MTU-34) mod 14 == 0 and no maximum-size Emit within the n <= 4 bound; small-frame instances MTU 76 / 83 / 62 were added",
 "agent-C06-3": "parse_frame had no clause that an Emit reaches parseEmit; the dispatcher clauses C06.emit-dispatched / C07.query-dispatched / C08.qlt-dispatched / C07,C10.probe-dispatched were added",
 "agent-C08-3": "the platform model bounded icons to 48 bytes, the threshold of this change is 16384 bytes; the big-icon instance parse_qlt_bigicon (icon of any size, contents not modelled, sendLargeTlvResponse replaced by its contract with the call-site clause C08.ltr-args) was added",
 "agent-C09-2": "the C09 check did not include the handler proofs (where hidden record bytes are arbitrary); they were added and their clauses adopted by C09",
 "agent-C09-3": "as agent-C09-2",
 "agent-C10-2": "first run targeted send_probe only: the changed signature of sendProbeMsg does not compile against the harness (UNDECIDED, exit 2); the full C10 check decides it through parse_emit_strict where everything is inlined",
 "agent-C12-2": "the failing clause tick-empties-table was attributed to C14 only; C12's statement names the 30 s drop, the clause now counts for both",
}
for d in sorted(glob.glob(os.path.join(S, "agent-C??-[23]"))):
    mp = os.path.join(d, "meta.json")
    if not os.path.exists(mp):
        continue
    m = json.load(open(mp))
    tags, nv, und = [], 0, False
    for lg in sorted(glob.glob(os.path.join(d, "check_*.log"))):
        txt = open(lg, errors="replace").read()
        nv += len(re.findall(r"^VIOLATION", txt, flags=re.M))
        und = und or ("UNDECIDED" in txt)
        for mm in re.finditer(r"failed obligation: harness=(\S+) \S+ \[([^\]]+)\]", txt):
            t = "%s:%s" % (mm.group(1), mm.group(2))
            if t not in tags:
                tags.append(t)
        for mm in re.finditer(r"VIOLATION property=(C\d+) replay=\S*/(C\d+-extra-[^ ]+?)-[0-9a-f]{8}\.json", txt):
            if mm.group(2) not in tags:
                tags.append(mm.group(2))
    name = os.path.basename(d)
    if nv:
        s = "%s check: %d VIOLATION line(s); failing obligations %s" % (m["property"], nv, ", ".join(tags[:5]))
    elif und:
        s = "%s check: UNDECIDED (exit 2), no VIOLATION line" % m["property"]
    else:
        s = "%s check: NOT reported (exit 0)" % m["property"]
    if name in WHY:
        first = glob.glob(os.path.join(d, "first_run_*.log"))
        s += " | first run %s: %s" % ("MISSED/undecided (log %s)" % os.path.basename(first[0]) if first else "", WHY[name])
    m["detected_by"] = s
    json.dump(m, open(mp, "w"), indent=1)
    print(name, "->", s[:110])
