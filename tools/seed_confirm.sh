#!/bin/bash
# usage: seed_confirm.sh <worktree> <seed-name> <property>
# confirms a sub-agent's seeded change in its scratch worktree (tests pass, demo fails with / passes without the
# change), files it under /verif/seeded/<seed-name>/ and runs the property's check against it in /repo.
set -u
WT=$1; NAME=$2; PROP=$3
OUT=/verif/seeded/$NAME
mkdir -p $OUT
cd $WT || exit 2
git diff -- lltdResponder os > $OUT/patch.diff
[ -s $OUT/patch.diff ] || { echo "empty patch"; exit 2; }
T1=$(make test 2>&1 | grep -c "PASSED")
bash demo/run.sh > $OUT/demo_with.log 2>&1; R1=$?
git stash -q -- lltdResponder os
bash demo/run.sh > $OUT/demo_without.log 2>&1; R0=$?
git stash pop -q
cp demo/demo.c demo/run.sh $OUT/ 2>/dev/null; cp demo/NOTES.md $OUT/NOTES.agent.md 2>/dev/null
echo "make-test-PASSED-lines=$T1 demo_with_change_rc=$R1 demo_without_change_rc=$R0"
cd /verif
git -C /repo apply $OUT/patch.diff || { echo "patch does not apply to /repo"; exit 2; }
VERIF_NO_EVIDENCE=1 ./check $PROP > $OUT/check.log 2>&1; RC=$?
git -C /repo checkout -- .
echo "check $PROP rc=$RC"; grep -E "VIOLATION|failed obligation|UNDECIDED" $OUT/check.log | cut -c1-250 | head -8
