#!/bin/bash
# confirm all round-2 agent seeds (A -> agent-Cxx-2, B -> agent-Cxx-3), 6 worktrees in parallel
cd /verif
for p in C01 C02 C03 C04 C05 C06 C07 C08 C09 C10 C11 C12 C14 C16 C17 C18 C19; do
  ( tools/seed_confirm2.sh $p A 2; tools/seed_confirm2.sh $p B 3 ) &
  while [ $(jobs -r | wc -l) -ge 6 ]; do sleep 1; done
done
wait
