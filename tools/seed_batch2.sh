#!/bin/bash
# confirm + run the targeted checks for the second batch of sub-agent seeds (sequential: each applies its patch to /repo)
cd /verif
run() { # id prop only...
  ID=$1; PROP=$2; shift; shift
  WT=/tmp/seed_$ID; NAME=agent-$ID-1; OUT=/verif/seeded/$NAME; mkdir -p $OUT
  ( cd $WT && git diff -- lltdResponder os > $OUT/patch.diff
    T1=$(make test 2>&1 | grep -c "PASSED")
    bash demo/run.sh > $OUT/demo_with.log 2>&1; R1=$?
    git stash -q -- lltdResponder os; bash demo/run.sh > $OUT/demo_without.log 2>&1; R0=$?; git stash pop -q
    cp demo/demo.c demo/run.sh $OUT/ 2>/dev/null; cp demo/NOTES.md $OUT/NOTES.agent.md 2>/dev/null
    echo "$NAME make-test-PASSED-lines=$T1 demo_with=$R1 demo_without=$R0" )
  git -C /repo apply $OUT/patch.diff || { echo "$NAME patch does not apply"; return; }
  ONLY=""; for o in "$@"; do ONLY="$ONLY --only $o"; done
  VERIF_NO_EVIDENCE=1 timeout 2400 ./check $PROP $ONLY > $OUT/check_$PROP.log 2>&1; RC=$?
  git -C /repo checkout -- .
  echo "$NAME check $PROP $ONLY rc=$RC"; grep -E "VIOLATION|failed obligation|UNDECIDED" $OUT/check_$PROP.log | cut -c1-200 | head -4
}
run C20 C20
run C04 C04 tlv_writers
run C08 C08 send_ltr
run C01 C01 send_ltr
run C06 C06 parse_emit
run C07 C07 parse_query_mtu60 parse_query_mtu80
run C19 C19 parse_query_mtu60 parse_probe
run C02 C02 parse_query_mtu72 parse_query_mtu93
run C10 C10 parse_probe
run C11 C11
run C12 C12 tick
run C05 C05 parse_frame
run C03 C03 parse_frame
run C09 C09 parse_frame
run C17 C17 parse_frame
