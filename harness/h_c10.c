/* C10 — composition lemma on the real observer: ANY frame that satisfies what the emitter half is proved to put on the
 * wire for a descriptor towards station B (oracle clauses C06.probe.* / C10.probe.real-dst of v_frame_check, proved at
 * the send site of sendProbeMsg) is recorded by the real parseProbe of a responder whose address is B, with the emitter
 * as real source and the descriptor's addresses as Ethernet source / destination. */
#include "v_harness.h"
#include "lltdBlock.c"
#include "lltdWire.c"
#include "lltdTlvOps.c"
#include "v_nocheck_push.h"
#include "v_state_builder.h"

static int v_ctx_obj;
#ifndef V_MTU_FIXED
#define V_MTU_FIXED 576
#endif

struct in_c10 {
    struct v_cfg cfg;                 /* configuration of the OBSERVER B */
    uint8_t frame[V_MTU_FIXED];       /* what A transmitted, delivered unmodified (32 bytes used) */
    ethernet_address_t emitter;       /* A's own address */
    ethernet_address_t d_src;         /* descriptor source (Ethernet source A was told to use) */
    uint8_t kind;
    struct in_state is;               /* B's record: observations so far */
};

void h_c10_peer(void) {
    V_INPUT(h_c10_peer, struct in_c10, in);
    V_ENV(in.cfg);
    V_ASSUME(g_cfg.mtu == V_MTU_FIXED && !g_cfg.mtu_fail && !g_cfg.mac_fail); g_cfg.mtu = V_MTU_FIXED; g_cfg.mtu_fail = 0;
    g_cfg.alloc_fail_mask = 0;        /* no fault at B */
    g_ctx = &v_ctx_obj;
    lltd_iface_state st; V_ZERO(st);
    v_build_state(&st, &in.is, g_ctx);
    V_ASSUME(ST_WF(&st));
    V_ASSUME(st.see_list_count < V_SEE_MAX);
    V_EXACT_OBJECT(f, in.frame, V_MTU_FIXED);
    const uint8_t *B = g_cfg.mac.a;
    V_ASSUME(in.kind <= 1);
    /* the emitter's proved send-site postcondition, for a descriptor (kind, d_src, dst = B) */
    V_ASSUME(f[12] == 0x88 && f[13] == 0xD9 && f[14] == 1 && f[15] == 0 && f[16] == 0);            /* C02 generic clauses      */
    V_ASSUME(f[17] == (in.kind == 1 ? 0x04 : 0x03));                                                  /* C06.probe.kind           */
    V_ASSUME(v_mac_eq(f + 6, in.d_src.a) && v_mac_eq(f, B));                                         /* C06.probe.eth-src / -dst */
    V_ASSUME(v_mac_eq(f + 18, B));                                                                    /* C10.probe.real-dst       */
    V_ASSUME(v_mac_eq(f + 24, in.emitter.a));                                                         /* C02.real-source-own (A)  */
    V_ASSUME(f[30] == 0 && f[31] == 0);
    /* not a duplicate of something B has already seen from A under that Ethernet source */
    V_ASSUME(!v_list_has_key(st.see_list, f + 6, f + 24));
    probe_t *head0 = st.see_list; uint32_t count0 = st.see_list_count;

    parseProbe(f, &st, g_ctx);

    V_POST("C10.peer-records: the frame A emitted towards B is recorded by B",
           st.see_list_count == count0 + 1 && st.see_list != NULL && v_nx(st.see_list) == head0);
    V_POST("C10.peer-records-source: with A as its source and the descriptor's addresses",
           st.see_list != NULL && v_mac_eq(st.see_list->realSourceAddr.a, in.emitter.a) &&
           v_mac_eq(st.see_list->sourceAddr.a, in.d_src.a) && v_mac_eq(st.see_list->destAddr.a, B));
    V_CANARY("end");
}
