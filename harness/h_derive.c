/* C11 (and the classifier part of C01) — derive_session_event of lltdAutomata.c, built WITHOUT LLTD_TESTING. */
#include "v_harness.h"
#include "automata_contracts.h"
#include "lltdAutomata.c"
#include "v_nocheck_push.h"
#ifdef V_REPLAY
#include <stdlib.h>
#else
void *malloc(size_t);
#endif      /* harness and specification code below: no implicit checks */

#ifndef FR_CAP
#define FR_CAP 1476            /* 36 + 6 * 240: the property's quantifier range */
#endif
#define ST_MAX ((FR_CAP - 36) / 6)

struct in_derive {
    struct v_cfg cfg;
    uint8_t frame[FR_CAP];
    session_table tab;
    uint8_t our[6];
    uint8_t null_tab, null_our;
    uint16_t gj;               /* ghost station position */
    uint8_t gt;                /* ghost table index       */
};
#define TB_BOOL_(i) && V_BOOL_OK(in.tab.entries[i].valid) && V_BOOL_OK(in.tab.entries[i].complete)

void h_derive(void) {
    V_INPUT(h_derive, struct in_derive, in);
    V_ENV(in.cfg);
    g_j = in.gt; V_ASSUME(GJ_OK);
    V_ASSUME(V_BOOL_OK(in.tab.all_complete) V_REP16(TB_BOOL_));
    session_table tb = in.tab;
    V_ASSUME(ST_WF_NOFLAG(&tb) && v_st_unique_all(&tb));
    session_table *t = in.null_tab ? NULL : &tb;
    const uint8_t *our = in.null_our ? NULL : in.our;
    V_EXACT_OBJECT(f, in.frame, FR_CAP);
    uint8_t op = f[17];
    uint16_t xid = v_be16(f + 30), gen = v_be16(f + 32), count = v_be16(f + 34);
    if (op == 0x00) V_ASSUME(count <= ST_MAX);      /* "as many as ... the frame holds" */
    session_table o = tb;
    uint8_t f0 = f[in.gj % FR_CAP];

    int ev = derive_session_event(f, t, our);

    V_POST("C11.pure: classification modifies neither the frame nor the table",
           f[in.gj % FR_CAP] == f0 && v_entry_same_v(tb.entries[g_j], o.entries[g_j]) && tb.count == o.count);
    if (op == 0x08) {
        V_POST("C11.reset: topology-wide iff the real destination is broadcast",
               ev == (v_mac_bcast(f + 18) ? sess_topo_reset : sess_reset));
        V_CANARY("reset");
    } else if (op == 0x01) {
        V_POST("C11.hello", ev == sess_hello);
    } else if (op == 0x00) {
        bool chg = (t != NULL) && v_st_known_other_seq(&o, f + 24, gen, xid);
        V_POST("C11.discover-variants", ev == sess_discover_noack || ev == sess_discover_acking ||
               ev == sess_discover_noack_chgd_xid || ev == sess_discover_acking_chgd_xid);
        V_POST("C11.changed-transaction: reported exactly when the session is known under a different sequence number",
               (ev == sess_discover_noack_chgd_xid || ev == sess_discover_acking_chgd_xid) == chg);
        if (our != NULL && count > 0) {
            /* present: the own address at the ghost position g < count */
            uint16_t g = in.gj;
            if (g < count && v_mac_eq(f + 36 + 6 * (size_t)g, our)) {
                V_POST("C11.present-acks: own address in the list (any position) is acknowledging",
                       ev == sess_discover_acking || ev == sess_discover_acking_chgd_xid);
                V_CANARY("present");
            }
            /* absent: no position below count holds the own address */
            bool any = false;
            for (unsigned j = 0; j < ST_MAX; j++) {
                if (j < count && v_mac_eq(f + 36 + 6 * (size_t)j, our)) any = true;
            }
            if (!any) {
                V_POST("C11.absent-noack: a non-empty list without the own address is not acknowledging",
                       ev == sess_discover_noack || ev == sess_discover_noack_chgd_xid);
                V_CANARY("absent");
            }
        }
        if (our == NULL) {
            V_POST("C11.no-own-address", ev == sess_discover_noack || ev == sess_discover_noack_chgd_xid);
        }
    } else {
        V_POST("C11.other-opcodes: every other frame yields no session event", ev == -1);
        V_CANARY("other");
    }
    V_POST("C11.null-frame", derive_session_event((const void *)0, t, our) == -1);
    V_CANARY("end");
}

/* C01: the classifier applied to a frame handed over in an MTU-sized buffer, wire count unconstrained */
#ifndef OOB_CAP
#define OOB_CAP 576
#endif
struct in_derive_oob { struct v_cfg cfg; uint8_t frame[OOB_CAP]; uint8_t our[6]; };
void h_derive_oob(void) {
    V_INPUT(h_derive_oob, struct in_derive_oob, in);
    V_ENV(in.cfg);
    g_j = 0;
    /* the receive buffer is an object of its own with exactly OOB_CAP bytes (as a member of the input record the bytes behind it
     * were the own address: the scan then always "found" it at position 90 and never left the object) */
    uint8_t *rx = (uint8_t *)malloc(OOB_CAP);
    V_ASSUME(rx != (uint8_t *)0);
    for (unsigned i = 0; i < OOB_CAP; i++) rx[i] = in.frame[i];
    int ev = derive_session_event(rx, (session_table *)0, in.our);
    V_POST("C11.range", ev >= -1 && ev <= 7);
    V_CANARY("end");
}
