/* C05 / C09 / C17 / C03 (link) / C02 (solicited) — parseFrame of lltdBlock.c, the five handlers replaced by their contracts. */
#include "v_harness.h"
#include "lltdBlock.c"
#include "lltdWire.c"
#include "lltdTlvOps.c"
#include "v_nocheck_push.h"
#include "v_state_builder.h"

static int v_ctx_obj, v_ctx_other;
#ifndef V_MTU_FIXED
#define V_MTU_FIXED 576
#endif

struct in_pf {
    struct v_cfg cfg;
    uint8_t frame[V_MTU_FIXED];
    struct in_state is, other;
    uint8_t have_other;            /* another interface's record precedes ours in the global list */
    uint8_t absent;                /* no record for this interface yet (first frame) */
    uint8_t null_frame;
    uint8_t gj;
};

#define SAME_MAC(x_, y_) v_mac_eq((x_).a, (y_).a)
/* the whole abstract state of a record, except the identity of list nodes */
static inline bool v_st_same(const lltd_iface_state *a, const lltd_iface_state *b) {
    return a->iface_ctx == b->iface_ctx && a->next == b->next && a->see_list == b->see_list && a->see_list_count == b->see_list_count &&
           a->mapper_known == b->mapper_known && a->mapper_seq == b->mapper_seq &&
           a->mapper_gen_topology == b->mapper_gen_topology && a->mapper_gen_quick == b->mapper_gen_quick &&
           a->small_icon == b->small_icon && a->small_icon_size == b->small_icon_size &&
           (!a->mapper_known || (SAME_MAC(a->mapper_real, b->mapper_real) && SAME_MAC(a->mapper_apparent, b->mapper_apparent)));
}

void h_parse_frame(void) {
    V_INPUT(h_parse_frame, struct in_pf, in);
    V_ENV(in.cfg);
    V_ASSUME(g_cfg.mtu == V_MTU_FIXED && !g_cfg.mtu_fail); g_cfg.mtu = V_MTU_FIXED; g_cfg.mtu_fail = 0;
    g_ctx = &v_ctx_obj;
    g_j = in.gj;
    V_ASSUME(in.have_other <= 1 && in.absent <= 1 && in.null_frame <= 1);
    /* the global list of per-interface records: [other]? -> [ours]? */
    lltd_iface_state *ours = (lltd_iface_state *)0, *other = (lltd_iface_state *)0;
    uint32_t live = 0;
    if (!in.absent) {
        ours = (lltd_iface_state *)malloc(sizeof(*ours)); V_ASSUME(ours != (lltd_iface_state *)0);
        v_build_state(ours, &in.is, g_ctx);
        V_ASSUME(ST_WF(ours));
        live += g_led.live;
    }
    if (in.have_other) {
        other = (lltd_iface_state *)malloc(sizeof(*other)); V_ASSUME(other != (lltd_iface_state *)0);
        v_build_state(other, &in.other, &v_ctx_other);
        V_ASSUME(ST_WF(other));
        other->next = ours;
        live += g_led.live;
    }
    g_led.live = live;
    g_iface_states = other ? other : ours;
    g_st = ours;
    lltd_iface_state o_other; V_ZERO(o_other);
    if (other) o_other = *other;
    lltd_iface_state o; V_ZERO(o);
    if (ours) o = *ours;
    V_EXACT_OBJECT(f, in.frame, V_MTU_FIXED);
    uint8_t tos = f[15], op = f[17];
    uint16_t gen = v_be16(f + 32);
    uint32_t live0 = g_led.live;
    lltd_iface_state *head0 = g_iface_states;

    parseFrame(in.null_frame ? (void *)0 : (void *)f, g_ctx);

    /* ---- C17 frame condition, stated explicitly (parseFrame is the top of the call tree here; enforcing its assigns
     * clause through DFCC made every obligation a 10-million-variable problem).  The closure of this argument - the
     * core has no other object of static storage duration - is the static check 'core_globals' of C17/C20. ---- */
    if (in.absent && !in.null_frame) {
        /* first frame on this interface: KNOWN FINDING (known-findings.txt) - the record is linked in without synchronisation */
        V_POST("C17.no-unsynchronised-shared-write: the list head shared by all receive threads is not written",
               g_iface_states == head0);
    } else {
        V_POST("C17.list-head-stable: with its record present, a frame never writes the shared list head", g_iface_states == head0);
    }
    /* ---- C17: another interface's record is never touched, the list is only ever extended at the head ---- */
    if (other) {
        V_POST("C17.other-interface-untouched: a frame on one interface changes nothing of another interface's state",
               v_st_same(other, &o_other));
    }
    if (in.null_frame) {
        V_POST("C01.null-frame-ignored", g_iface_states == head0 && g_led.tx_attempts == 0 && g_led.allocs == 0);
    } else if (in.absent) {
        /* first frame on this interface: a zeroed record is created (memory permitting), then the frame is handled */
        if (!V_ALLOC_OK(0, 0)) {
            V_POST("C18.first-frame-alloc-failure: no record, nothing sent, list untouched",
                   g_iface_states == head0 && g_led.tx_attempts == 0 && g_led.live == live0);
            V_CANARY("absent-fail");
        } else {
            V_POST("C09.new-record-at-head: a fresh record for this interface is linked in front",
                   g_iface_states != head0 && g_iface_states != NULL && g_iface_states->iface_ctx == g_ctx && g_iface_states->next == head0);
            V_CANARY("absent-ok");
        }
    } else {
        lltd_iface_state *st = ours;
        bool discovery = (tos == 0 || tos == 1);
        V_POST("C17.own-record-stays-linked", g_iface_states == head0 && st->iface_ctx == g_ctx && st->next == o.next);
        /* ---- C05 (c): frames of other services never establish, change or release the mapper - nor anything else ---- */
        if (!discovery) {
            V_POST("C05.foreign-service-inert: a frame of another service changes no state and sends nothing",
                   v_st_same(st, &o) && g_led.tx_attempts == 0 && g_led.allocs == 0 && g_led.live == live0);
            V_CANARY("foreign");
        }
        /* ---- C05 (a) / C03 link: Discover ---- */
        if (discovery && op == 0x00) {
            bool accept = !o.mapper_known || v_mac_eq(o.mapper_real.a, f + 24);
            V_POST("C05.discover-reply-iff-mapper-free-or-same: answered iff no mapper is active or the sender is the active mapper",
                   g_led.tx_op[1] == ((accept && V_ALLOC_OK(0, 0)) ? 1u : 0u) && g_led.tx_attempts == g_led.tx_op[1]);
            if (accept) {
                V_POST("C05.discover-establishes-mapper: the first accepted Discover's sender becomes (stays) the active mapper",
                       st->mapper_known == 1 && v_mac_eq(st->mapper_real.a, f + 24) &&
                       (o.mapper_known ? SAME_MAC(st->mapper_apparent, o.mapper_apparent) : v_mac_eq(st->mapper_apparent.a, f + 6)));
                V_POST("C03.generation-stored: the Hello's service carries this Discover's generation", GEN_SLOT(st, tos) == gen);
                V_POST("C03.other-service-generation-untouched: a Discover of one service leaves the other service's generation alone",
                       tos == 1 ? st->mapper_gen_topology == o.mapper_gen_topology : st->mapper_gen_quick == o.mapper_gen_quick);
                V_CANARY("accept");
            } else {
                V_POST("C05.foreign-discover-silent: a Discover from another station while a mapper is active changes nothing",
                       v_st_same(st, &o) && g_led.allocs == 0);
                V_CANARY("reject");
            }
        }
        /* ---- C05 (b) / C09: Reset ---- */
        if (tos == 0 && op == 0x08) {
            V_POST("C09.reset-fresh: after a topology Reset the record equals a freshly started one",
                   st->see_list == NULL && st->see_list_count == 0 && st->small_icon == NULL && st->small_icon_size == 0 &&
                   st->mapper_known == 0 && st->mapper_seq == 0 && st->mapper_gen_topology == 0 && st->mapper_gen_quick == 0);
            V_POST("C19.reset-releases-all: nothing remains allocated except the per-interface records",
                   g_led.live == live0 - o.see_list_count - (o.small_icon ? 1u : 0u));
            V_POST("C05.reset-releases-mapper", st->mapper_known == 0 && g_led.tx_attempts == 0);
            V_CANARY("reset");
        }
        if (tos == 1 && op == 0x08) {
            V_POST("C05.reset-releases-mapper", st->mapper_known == 0 && g_led.tx_attempts == 0);
            V_POST("C05.quick-reset-rest-untouched", st->mapper_gen_quick == 0 && st->see_list == o.see_list && st->see_list_count == o.see_list_count &&
                   st->small_icon == o.small_icon && st->mapper_gen_topology == o.mapper_gen_topology && st->mapper_seq == o.mapper_seq);
        }
        /* ---- C06 / C07 / C08 link: the commands of the active mapper (or of any station while none is active - C05's domain)
         * reach their handlers.  The handlers are replaced by their contracts here, so "was handled" is what the contract's
         * state clause says (sequence number taken over, mapper established or kept); a dispatcher that drops or filters the
         * command leaves the old sequence number behind.  parseProbe is inlined: its recording clause is evaluated directly. ---- */
        {
            bool from_mapper_or_free = !o.mapper_known || v_mac_eq(o.mapper_real.a, f + 24);
            if (tos == 0 && op == 0x02 && from_mapper_or_free) {
                V_POST("C06.emit-dispatched: an Emit from the active mapper is executed", C06_EMIT_STATE(st, f, o.mapper_known, o.mapper_real, o.mapper_apparent));
                V_CANARY("emit");
            }
            if (tos == 0 && op == 0x06 && from_mapper_or_free) {
                V_POST("C07.query-dispatched: a Query from the active mapper is answered", C07_QUERY_MAPPER(st, f));
            }
            if (discovery && op == 0x0B && from_mapper_or_free) {
                V_POST("C08.qlt-dispatched: a QueryLargeTlv of either discovery service from the active mapper is handled",
                       C08_QLT_STATE(st, f, o.mapper_known, o.mapper_real, o.mapper_apparent));
            }
            if (tos == 0 && (op == 0x03 || op == 0x04)) {
                V_POST("C07,C10.probe-dispatched: a Probe / Train addressed to this station is recorded whoever the mapper is (or is not)",
                       C07_PROBE(st, f, o.see_list, o.see_list_count, live0, 0u, 0u));
                V_CANARY("probe");
            }
        }
        /* ---- Hello heard: only logged ---- */
        if (op == 0x01) {
            V_POST("C03.hello-heard-inert: Hellos of other stations change nothing", v_st_same(st, &o) && g_led.tx_attempts == 0 && g_led.allocs == 0);
        }
        /* ---- C02: frames are sent only in reaction to a Discover, Emit, Query or QueryLargeTlv of the discovery services ---- */
        bool may_send = (discovery && op == 0x00) || (tos == 0 && (op == 0x02 || op == 0x06)) || (discovery && op == 0x0B);
        V_POST("C02.solicited-only: nothing is sent in reaction to anything else", may_send || g_led.tx_attempts == 0);
        V_POST("C02.at-most-one-per-request: one frame per request (one per descriptor plus an ACK for an Emit)",
               g_led.tx_attempts <= ((tos == 0 && op == 0x02) ? V_EMIT_CAP(V_MTU_FIXED) + 1u : 1u));
        /* ---- C07 / C19: well-formedness and the ledger equation are re-established by every frame ---- */
        V_POST("C19.ledger: live memory = records + observations + cached icons", g_led.live == live0 - ST_LIVE(&o) + ST_LIVE(st));
        V_POST("C19.wf-preserved: the record stays well-formed", ST_SHAPE(st));
#ifdef V_DEBUG_WF
        V_POST("C19.dbg1", V_RW_OK(st, sizeof(lltd_iface_state)));
        V_POST("C19.dbg2", v_nodes_ok(st->see_list));
        V_POST("C19.dbg3", st->see_list_count == v_list_len(st->see_list));
        V_POST("C19.dbg4", st->see_list_count <= V_LIST_MAX && st->mapper_known <= 1);
        V_POST("C19.dbg5", ((st->small_icon == NULL) == (st->small_icon_size == 0)));
        V_POST("C19.dbg6", (st->small_icon == NULL || V_R_OK(st->small_icon, st->small_icon_size)));
#endif
        /* everything except what the opcode's handler owns is untouched */
        if (!(discovery && op == 0x00) && !(op == 0x08 && discovery)) {
            V_POST("C03.generations-only-by-discover-or-reset", st->mapper_gen_topology == o.mapper_gen_topology && st->mapper_gen_quick == o.mapper_gen_quick);
        }
    }
    V_CANARY("end");
}
