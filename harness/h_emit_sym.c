/* C06 / C01 - parseEmit for a SYMBOLIC MTU in [576, 9216]: the descriptor loop is closed by a loop contract (no unwinding),
 * sendProbeMsg is replaced by its contract.  The frame is an object of exactly MTU bytes with arbitrary contents. */
#include "v_harness.h"
#include "lltdBlock.c"
#include "lltdWire.c"
#include "lltdTlvOps.c"
#include "v_nocheck_push.h"
static int v_ctx_obj;
struct in_emit_sym { struct v_cfg cfg; ethernet_address_t mapper_real, mapper_apparent; uint16_t mapper_seq; uint8_t mapper_known; };
void h_parse_emit_symmtu(void) {
    V_INPUT(h_parse_emit_symmtu, struct in_emit_sym, in);
    V_ENV(in.cfg);
    V_ASSUME(!g_cfg.mtu_fail); g_cfg.mtu_fail = 0;
    g_ctx = &v_ctx_obj;
    V_ASSUME(in.mapper_known <= 1);
    lltd_iface_state st;
    st.iface_ctx = g_ctx; st.next = (lltd_iface_state *)0;
    st.mapper_known = in.mapper_known; st.mapper_real = in.mapper_real; st.mapper_apparent = in.mapper_apparent;
    st.mapper_seq = in.mapper_seq; st.mapper_gen_topology = 0; st.mapper_gen_quick = 0;
    st.see_list = (probe_t *)0; st.see_list_count = 0; st.small_icon = (void *)0; st.small_icon_size = 0;
    uint8_t *f = (uint8_t *)malloc(g_cfg.mtu); V_ASSUME(f != (uint8_t *)0);      /* exactly MTU bytes, arbitrary contents */
    uint32_t live0 = g_led.live;
    lltd_iface_state o = st;
    parseEmit(f, &st, g_ctx);
    V_POST("C06.emit-state", C06_EMIT_STATE(&st, f, o.mapper_known, o.mapper_real, o.mapper_apparent));
    V_POST("C06.count-bound: a declared count larger than the frame can carry never yields more frames than a maximum-size Emit",
           C06_EMIT_BOUND(0u, live0));
    V_CANARY("end");
}
