/* C13 — RepeatBand back-off: band_* functions of lltdAutomata.c against their contracts. */
#include "v_harness.h"
#include "automata_contracts.h"
#include "lltdAutomata.c"      /* the real code, unmodified (built WITHOUT LLTD_TESTING) */
#include "v_nocheck_push.h"      /* harness and specification code below: no implicit checks */

struct in_band {
    struct v_cfg cfg;
    band_state band;
    uint8_t null_arg;
};

#define BAND_PROLOGUE(FN) \
    V_INPUT(FN, struct in_band, in); \
    V_ENV(in.cfg); \
    V_ASSUME(V_BOOL_OK(in.band.begun)); \
    band_state b = in.band; \
    band_state *bp = in.null_arg ? NULL : &b; \
    V_ASSUME(PRE_band(bp)); \
    band_state o = b; (void)o

void h_band_update(void) {
    BAND_PROLOGUE(h_band_update);
    band_update_stats(bp);
    V_POST("C13.ni-formula: count = min(NMAX, ALPHA*r^2) without wrap-around", C13_NI_FORMULA(bp, o.r, o.begun, o.Ni));
    V_POST("C13.ni-range: count stays within [ALPHA, NMAX]", C13_NI_RANGE(bp));
    V_POST("C13.r-reset", C13_R_RESET(bp));
    V_POST("C13.block-deadline", C13_BLOCK_DEADLINE(bp));
    V_POST("C13.update-rest", C13_UPD_REST(bp, o.begun, o.hello_timeout_ts));
    V_CANARY("end");
}

void h_band_choose(void) {
    BAND_PROLOGUE(h_band_choose);
    uint64_t ret = band_choose_hello_time(bp);
    V_POST("C13.interval: next Hello no sooner than the load formula allows", C13_INTERVAL(bp, ret));
    V_POST("C13.choose-rest", C13_CHOOSE_REST(bp, o.Ni, o.r, o.begun, o.block_timeout_ts));
    V_CANARY("end");
}

void h_band_dohello(void) {
    BAND_PROLOGUE(h_band_dohello);
    band_do_hello(bp);
    V_POST("C13.do-hello", C13_DOHELLO(bp, o.Ni, o.r, o.block_timeout_ts));
    V_CANARY("end");
}

void h_band_heard(void) {
    BAND_PROLOGUE(h_band_heard);
    band_on_hello_received(bp);
    V_POST("C13.hello-heard", C13_HEARD(bp, o.Ni, o.r, o.begun, o.hello_timeout_ts, o.block_timeout_ts));
    V_POST("C13.ni-range: count stays within [ALPHA, NMAX]", C13_NI_RANGE(bp));
    V_CANARY("end");
}

void h_band_init(void) {
    V_INPUT(h_band_init, struct in_band, in);
    V_ENV(in.cfg);
    V_ASSUME(V_BOOL_OK(in.band.begun));
    band_state b = in.band;
    band_state *bp = in.null_arg ? NULL : &b;
    band_init_stats(bp);
    V_POST("C13.init", C13_INIT(bp));
    V_POST("C13.ni-range: count stays within [ALPHA, NMAX]", C13_NI_RANGE(bp));
    V_CANARY("end");
}

/* monotonicity lemma over the spec functions the contracts above are stated in:
 * r1 <= r2  =>  Ni(r1) <= Ni(r2)  =>  interval(Ni1) <= interval(Ni2); and Ni(r) in [ALPHA, NMAX] for r > 0 */
struct in_mono { uint32_t r1, r2, n1, n2; };
void h_c13_monotone(void) {
    V_INPUT(h_c13_monotone, struct in_mono, in);
    V_ASSUME(in.r1 <= in.r2 && in.r1 > 0);
    V_ASSUME(in.n1 <= in.n2 && in.n2 <= 10000u);
    V_POST("C13.lemma.ni-monotone", v_spec_ni(in.r1) <= v_spec_ni(in.r2));
    V_POST("C13.lemma.ni-range", v_spec_ni(in.r1) >= 45u && v_spec_ni(in.r1) <= 10000u);
    V_POST("C13.lemma.interval-monotone", v_spec_interval(in.n1) <= v_spec_interval(in.n2));
    /* closed form against the formula in 64-bit arithmetic where it cannot wrap (r < 2^16) */
    if (in.r1 < 65536u) {
        uint64_t f = (uint64_t)45u * in.r1 * in.r1;
        V_POST("C13.lemma.closed-form", v_spec_ni(in.r1) == (f > 10000u ? 10000u : (uint32_t)f));
    }
    V_CANARY("end");
}
