/* C04 (platform layer) — the Linux port's getters derive what they supply from the interface record without distortion.
 * The file under proof is os/linux/lltd_port.c itself; only the five getters that do not go through libc / the kernel
 * need no model; the two getifaddrs-based IPv4 / IPv6 getters are proved against an environment model of getifaddrs (below). */
#include <ifaddrs.h>
#include <netinet/in.h>
#include "os/linux/lltd_port.c"
#include "v_harness.h"
#include "v_nocheck_push.h"

struct in_lp {
    uint32_t ifType, MediumType, MTU, LinkSpeed, flags;
    uint8_t mac[6];
    uint8_t null_ctx, null_out;
};

/* contracts of the getters (enforced below) */
int lltd_port_get_mtu(void *iface_ctx, size_t *out_mtu)
__CPROVER_requires(iface_ctx == NULL || __CPROVER_r_ok(iface_ctx, sizeof(network_interface_t)))
__CPROVER_requires(out_mtu == NULL || __CPROVER_w_ok(out_mtu, sizeof(size_t)))
__CPROVER_assigns(iface_ctx != NULL && out_mtu != NULL: *out_mtu)
__CPROVER_ensures((iface_ctx == NULL || out_mtu == NULL) ? __CPROVER_return_value != 0
                  : (__CPROVER_return_value == 0 && *out_mtu == ((const network_interface_t *)iface_ctx)->MTU)) /*@C04.linux-mtu*/
;
int lltd_port_get_if_type(void *iface_ctx, uint32_t *out_if_type)
__CPROVER_requires(iface_ctx == NULL || __CPROVER_r_ok(iface_ctx, sizeof(network_interface_t)))
__CPROVER_requires(out_if_type == NULL || __CPROVER_w_ok(out_if_type, sizeof(uint32_t)))
__CPROVER_assigns(iface_ctx != NULL && out_if_type != NULL: *out_if_type)
__CPROVER_ensures((iface_ctx == NULL || out_if_type == NULL) ? __CPROVER_return_value != 0
                  : (__CPROVER_return_value == 0 && *out_if_type == ((const network_interface_t *)iface_ctx)->ifType)) /*@C04.linux-iftype*/
;
int lltd_port_get_link_speed_100bps(void *iface_ctx, uint32_t *out_speed_100bps)
__CPROVER_requires(iface_ctx == NULL || __CPROVER_r_ok(iface_ctx, sizeof(network_interface_t)))
__CPROVER_requires(out_speed_100bps == NULL || __CPROVER_w_ok(out_speed_100bps, sizeof(uint32_t)))
__CPROVER_assigns(iface_ctx != NULL && out_speed_100bps != NULL: *out_speed_100bps)
__CPROVER_ensures((iface_ctx == NULL || out_speed_100bps == NULL) ? __CPROVER_return_value != 0
                  : (__CPROVER_return_value == 0 && *out_speed_100bps == ((const network_interface_t *)iface_ctx)->LinkSpeed / 100u)) /*@C04.linux-speed*/
;

void h_linux_getters(void) {
    V_INPUT(h_linux_getters, struct in_lp, in);
    network_interface_t nif;
    V_ZERO(nif);
    nif.ifType = in.ifType; nif.MediumType = in.MediumType; nif.MTU = in.MTU; nif.LinkSpeed = in.LinkSpeed; nif.flags = in.flags;
    for (int i = 0; i < 6; i++) nif.macAddress[i] = in.mac[i];
    void *ctx = in.null_ctx ? (void *)0 : (void *)&nif;

    size_t mtu = 0x5A5A; uint32_t ift = 0x5A5A5A5Au, spd = 0x5A5A5A5Au;
    ethernet_address_t mac = {{0x5A, 0x5A, 0x5A, 0x5A, 0x5A, 0x5A}};
    int r1 = lltd_port_get_mtu(ctx, in.null_out ? (size_t *)0 : &mtu);
    int r2 = lltd_port_get_if_type(ctx, in.null_out ? (uint32_t *)0 : &ift);
    int r3 = lltd_port_get_link_speed_100bps(ctx, in.null_out ? (uint32_t *)0 : &spd);
    int r4 = lltd_port_get_mac_address(ctx, in.null_out ? (ethernet_address_t *)0 : &mac);
    uint32_t fl = lltd_port_get_characteristics_flags(ctx);
    if (!in.null_ctx && !in.null_out) {
        V_POST("C04.linux-mtu: MTU copied", r1 == 0 && mtu == in.MTU);
        V_POST("C04.linux-iftype: interface type copied", r2 == 0 && ift == in.ifType);
        V_POST("C04.linux-speed: link speed converted from bit/s to units of 100 bit/s", r3 == 0 && spd == in.LinkSpeed / 100u);
        V_POST("C04.linux-mac: hardware address copied", r4 == 0 && v_mac_eq(mac.a, in.mac));
        V_CANARY("ok");
    } else {
        V_POST("C04.linux-failure-leaves-outputs: a failing getter reports failure and leaves its output untouched (assumption A3 of the core proofs)",
               r1 != 0 && r2 != 0 && r3 != 0 && r4 != 0 && mtu == 0x5A5A && ift == 0x5A5A5A5Au && spd == 0x5A5A5A5Au && mac.a[0] == 0x5A);
    }
    if (!in.null_ctx) {
        V_POST("C04.linux-flags: full duplex -> 0x2000, loopback -> 0x0800, nothing else set",
               fl == (((in.MediumType & 0x0010u) ? 0x2000u : 0u) | ((in.flags & 0x8u) ? 0x0800u : 0u)));
    } else {
        V_POST("C04.linux-flags-null", fl == 0);
    }
    V_CANARY("end");
}

static size_t g_k6;      /* ghost byte index into the IPv6 address */

/* ------------------------------------------------------------------------------------------------------------------
 * The two getifaddrs-based getters.  Environment model (trusted, E1): getifaddrs yields a list of at most V_IFA_N entries,
 * each with a name of at most 3 characters, an address family and an address (or none); freeifaddrs releases nothing the
 * getter may still use.  Contract: the FIRST entry of the right family whose name equals the interface's device name supplies
 * the address, copied bit for bit (network byte order kept); with no such entry the getter fails and leaves its output
 * untouched (assumption A3 of the core proofs).  The expected entry is a ghost index computed by the harness by an explicit
 * scan.  Bounded: lists of at most V_IFA_N entries. */
#ifndef V_IFA_N
#define V_IFA_N 3
#endif
struct v_ifa_in { char name[4]; uint8_t has_addr; uint16_t family; uint32_t v4; uint8_t v6[16]; };
static struct v_ifa_in g_ifa_in[V_IFA_N];
static uint8_t g_ifa_n, g_ifa_fail;
static int g_exp4, g_exp6;                 /* ghost: index of the entry that must supply the address, -1 = none */
static struct ifaddrs v_ifa_nodes[V_IFA_N];
static struct sockaddr_in v_sin[V_IFA_N];
static struct sockaddr_in6 v_sin6[V_IFA_N];
static struct sockaddr v_sother[V_IFA_N];

/* the list is built by the harness before the getters run (the model must not write anything inside a function under contract) */
static void v_ifa_build(void) {
    for (int i = 0; i < V_IFA_N; i++) {
        v_ifa_nodes[i].ifa_name = g_ifa_in[i].name;
        v_ifa_nodes[i].ifa_next = (i + 1 < g_ifa_n) ? &v_ifa_nodes[i + 1] : (struct ifaddrs *)0;
        if (!g_ifa_in[i].has_addr) v_ifa_nodes[i].ifa_addr = (struct sockaddr *)0;
        else if (g_ifa_in[i].family == AF_INET) { v_sin[i].sin_family = AF_INET; v_sin[i].sin_addr.s_addr = g_ifa_in[i].v4; v_ifa_nodes[i].ifa_addr = (struct sockaddr *)&v_sin[i]; }
        else if (g_ifa_in[i].family == AF_INET6) { v_sin6[i].sin6_family = AF_INET6; for (int k = 0; k < 16; k++) v_sin6[i].sin6_addr.s6_addr[k] = g_ifa_in[i].v6[k]; v_ifa_nodes[i].ifa_addr = (struct sockaddr *)&v_sin6[i]; }
        else { v_sother[i].sa_family = g_ifa_in[i].family; v_ifa_nodes[i].ifa_addr = &v_sother[i]; }
    }
}
int getifaddrs(struct ifaddrs **out) {
    if (g_ifa_fail) return -1;
    *out = g_ifa_n ? &v_ifa_nodes[0] : (struct ifaddrs *)0;
    return 0;
}
void freeifaddrs(struct ifaddrs *p) { (void)p; }

#define V_NAME_EQ(a, b) ((a)[0] == (b)[0] && ((a)[0] == 0 || ((a)[1] == (b)[1] && ((a)[1] == 0 || ((a)[2] == (b)[2] && ((a)[2] == 0 || (a)[3] == (b)[3]))))))

int lltd_port_get_ipv4_address(void *iface_ctx, uint32_t *out_ipv4_be)
__CPROVER_requires(iface_ctx == NULL || (__CPROVER_r_ok(iface_ctx, sizeof(network_interface_t)) && __CPROVER_r_ok(((const network_interface_t *)iface_ctx)->deviceName, 4) && ((const network_interface_t *)iface_ctx)->deviceName[3] == 0))
__CPROVER_requires(out_ipv4_be == NULL || __CPROVER_w_ok(out_ipv4_be, sizeof(uint32_t)))
__CPROVER_assigns(iface_ctx != NULL && out_ipv4_be != NULL: *out_ipv4_be)
__CPROVER_ensures((iface_ctx == NULL || out_ipv4_be == NULL || g_ifa_fail || g_exp4 < 0)
                  ? (__CPROVER_return_value != 0 && (out_ipv4_be == NULL || *out_ipv4_be == __CPROVER_old(*out_ipv4_be)))
                  : (__CPROVER_return_value == 0 && *out_ipv4_be == g_ifa_in[g_exp4].v4)) /*@C04.linux-ipv4*/
;
int lltd_port_get_ipv6_address(void *iface_ctx, uint8_t out_ipv6[16])
__CPROVER_requires(iface_ctx == NULL || (__CPROVER_r_ok(iface_ctx, sizeof(network_interface_t)) && __CPROVER_r_ok(((const network_interface_t *)iface_ctx)->deviceName, 4) && ((const network_interface_t *)iface_ctx)->deviceName[3] == 0))
__CPROVER_requires(out_ipv6 == NULL || __CPROVER_w_ok(out_ipv6, 16))
__CPROVER_assigns(iface_ctx != NULL && out_ipv6 != NULL: __CPROVER_object_upto(out_ipv6, 16))
__CPROVER_ensures((iface_ctx == NULL || out_ipv6 == NULL || g_ifa_fail || g_exp6 < 0)
                  ? (__CPROVER_return_value != 0 && (out_ipv6 == NULL || out_ipv6[g_k6] == __CPROVER_old(out_ipv6[g_k6])))
                  : (__CPROVER_return_value == 0 && out_ipv6[g_k6] == g_ifa_in[g_exp6].v6[g_k6])) /*@C04.linux-ipv6*/
;

struct in_lifa { struct v_ifa_in ifa[V_IFA_N]; uint8_t n, fail; char dev[4]; uint8_t null_ctx, null_out; uint8_t k6; uint32_t out4; uint8_t out6[16]; };

void h_linux_ifaddrs(void) {
    V_INPUT(h_linux_ifaddrs, struct in_lifa, in);
    V_ASSUME(in.n <= V_IFA_N && in.k6 < 16 && in.dev[3] == 0);
    g_k6 = in.k6; g_ifa_n = in.n; g_ifa_fail = in.fail;
    g_exp4 = -1; g_exp6 = -1;
    for (int i = V_IFA_N - 1; i >= 0; i--) {
        g_ifa_in[i] = in.ifa[i];
        V_ASSUME(g_ifa_in[i].name[3] == 0);
        if (i < in.n && g_ifa_in[i].has_addr && V_NAME_EQ(in.dev, g_ifa_in[i].name)) {
            if (g_ifa_in[i].family == AF_INET) g_exp4 = i;
            if (g_ifa_in[i].family == AF_INET6) g_exp6 = i;
        }
    }
    v_ifa_build();
    network_interface_t nif;
    V_ZERO(nif);
    char *dev = (char *)malloc(4); V_ASSUME(dev != (char *)0);
    dev[0] = in.dev[0]; dev[1] = in.dev[1]; dev[2] = in.dev[2]; dev[3] = 0;
    nif.deviceName = dev;
    void *ctx = in.null_ctx ? (void *)0 : (void *)&nif;
    uint32_t a4 = in.out4; uint8_t a6[16];
    for (int k = 0; k < 16; k++) a6[k] = in.out6[k];
    int r4 = lltd_port_get_ipv4_address(ctx, in.null_out ? (uint32_t *)0 : &a4);
    int r6 = lltd_port_get_ipv6_address(ctx, in.null_out ? (uint8_t *)0 : a6);
    bool usable = !in.null_ctx && !in.null_out && !in.fail;
    V_POST("C04.linux-ipv4: the first IPv4 entry of this interface supplies the address, bit for bit; none -> failure, output untouched",
           (usable && g_exp4 >= 0) ? (r4 == 0 && a4 == in.ifa[g_exp4].v4) : (r4 != 0 && a4 == in.out4));
    V_POST("C04.linux-ipv6: the first IPv6 entry of this interface supplies the address, bit for bit; none -> failure, output untouched",
           (usable && g_exp6 >= 0) ? (r6 == 0 && a6[in.k6] == in.ifa[g_exp6].v6[in.k6]) : (r6 != 0 && a6[in.k6] == in.out6[in.k6]));
    if (usable && g_exp4 >= 1) { V_CANARY("found4-later"); }
    if (usable && g_exp6 >= 0) { V_CANARY("found6"); }
    if (usable && g_exp4 < 0 && in.n == V_IFA_N) { V_CANARY("none4"); }
    V_CANARY("end");
}
