/* C04 (platform layer) — the Linux port's getters derive what they supply from the interface record without distortion.
 * The file under proof is os/linux/lltd_port.c itself; only the five getters that do not go through libc / the kernel
 * are within reach (the getifaddrs-based IPv4 / IPv6 getters are listed as unverified). */
#include "os/linux/lltd_port.c"
#include "v_harness.h"
#include "v_nocheck_push.h"

struct in_lp {
    uint32_t ifType, MediumType, MTU, LinkSpeed, flags;
    uint8_t mac[6];
    uint8_t null_ctx, null_out;
};

/* contracts of the getters (enforced below) */
int lltd_port_get_mtu(void *iface_ctx, size_t *out_mtu)
__CPROVER_requires(iface_ctx == NULL || __CPROVER_r_ok(iface_ctx, sizeof(network_interface_t)))
__CPROVER_requires(out_mtu == NULL || __CPROVER_w_ok(out_mtu, sizeof(size_t)))
__CPROVER_assigns(iface_ctx != NULL && out_mtu != NULL: *out_mtu)
__CPROVER_ensures((iface_ctx == NULL || out_mtu == NULL) ? __CPROVER_return_value != 0
                  : (__CPROVER_return_value == 0 && *out_mtu == ((const network_interface_t *)iface_ctx)->MTU)) /*@C04.linux-mtu*/
;
int lltd_port_get_if_type(void *iface_ctx, uint32_t *out_if_type)
__CPROVER_requires(iface_ctx == NULL || __CPROVER_r_ok(iface_ctx, sizeof(network_interface_t)))
__CPROVER_requires(out_if_type == NULL || __CPROVER_w_ok(out_if_type, sizeof(uint32_t)))
__CPROVER_assigns(iface_ctx != NULL && out_if_type != NULL: *out_if_type)
__CPROVER_ensures((iface_ctx == NULL || out_if_type == NULL) ? __CPROVER_return_value != 0
                  : (__CPROVER_return_value == 0 && *out_if_type == ((const network_interface_t *)iface_ctx)->ifType)) /*@C04.linux-iftype*/
;
int lltd_port_get_link_speed_100bps(void *iface_ctx, uint32_t *out_speed_100bps)
__CPROVER_requires(iface_ctx == NULL || __CPROVER_r_ok(iface_ctx, sizeof(network_interface_t)))
__CPROVER_requires(out_speed_100bps == NULL || __CPROVER_w_ok(out_speed_100bps, sizeof(uint32_t)))
__CPROVER_assigns(iface_ctx != NULL && out_speed_100bps != NULL: *out_speed_100bps)
__CPROVER_ensures((iface_ctx == NULL || out_speed_100bps == NULL) ? __CPROVER_return_value != 0
                  : (__CPROVER_return_value == 0 && *out_speed_100bps == ((const network_interface_t *)iface_ctx)->LinkSpeed / 100u)) /*@C04.linux-speed*/
;

void h_linux_getters(void) {
    V_INPUT(h_linux_getters, struct in_lp, in);
    network_interface_t nif;
    V_ZERO(nif);
    nif.ifType = in.ifType; nif.MediumType = in.MediumType; nif.MTU = in.MTU; nif.LinkSpeed = in.LinkSpeed; nif.flags = in.flags;
    for (int i = 0; i < 6; i++) nif.macAddress[i] = in.mac[i];
    void *ctx = in.null_ctx ? (void *)0 : (void *)&nif;

    size_t mtu = 0x5A5A; uint32_t ift = 0x5A5A5A5Au, spd = 0x5A5A5A5Au;
    ethernet_address_t mac = {{0x5A, 0x5A, 0x5A, 0x5A, 0x5A, 0x5A}};
    int r1 = lltd_port_get_mtu(ctx, in.null_out ? (size_t *)0 : &mtu);
    int r2 = lltd_port_get_if_type(ctx, in.null_out ? (uint32_t *)0 : &ift);
    int r3 = lltd_port_get_link_speed_100bps(ctx, in.null_out ? (uint32_t *)0 : &spd);
    int r4 = lltd_port_get_mac_address(ctx, in.null_out ? (ethernet_address_t *)0 : &mac);
    uint32_t fl = lltd_port_get_characteristics_flags(ctx);
    if (!in.null_ctx && !in.null_out) {
        V_POST("C04.linux-mtu: MTU copied", r1 == 0 && mtu == in.MTU);
        V_POST("C04.linux-iftype: interface type copied", r2 == 0 && ift == in.ifType);
        V_POST("C04.linux-speed: link speed converted from bit/s to units of 100 bit/s", r3 == 0 && spd == in.LinkSpeed / 100u);
        V_POST("C04.linux-mac: hardware address copied", r4 == 0 && v_mac_eq(mac.a, in.mac));
        V_CANARY("ok");
    } else {
        V_POST("C04.linux-failure-leaves-outputs: a failing getter reports failure and leaves its output untouched (assumption A3 of the core proofs)",
               r1 != 0 && r2 != 0 && r3 != 0 && r4 != 0 && mtu == 0x5A5A && ift == 0x5A5A5A5Au && spd == 0x5A5A5A5Au && mac.a[0] == 0x5A);
    }
    if (!in.null_ctx) {
        V_POST("C04.linux-flags: full duplex -> 0x2000, loopback -> 0x0800, nothing else set",
               fl == (((in.MediumType & 0x0010u) ? 0x2000u : 0u) | ((in.flags & 0x8u) ? 0x0800u : 0u)));
    } else {
        V_POST("C04.linux-flags-null", fl == 0);
    }
    V_CANARY("end");
}
