/* C16 — session table of lltdAutomata.c against its representation invariant and abstract map view. */
#include "v_harness.h"
#include "automata_contracts.h"
#include "lltdAutomata.c"
#include "v_nocheck_push.h"      /* harness and specification code below: no implicit checks */

struct in_tab {
    struct v_cfg cfg;
    session_table tab;
    uint8_t mac[6];
    uint16_t gen, seq;
    uint8_t null_tab, null_mac;
    uint8_t gj;
};

/* type invariant of the _Bool fields of the nondeterministic table */
#define TB_BOOL_(i) && V_BOOL_OK(in.tab.entries[i].valid) && V_BOOL_OK(in.tab.entries[i].complete)
#define TAB_PROLOGUE(FN) \
    V_INPUT(FN, struct in_tab, in); \
    V_ENV(in.cfg); \
    g_j = in.gj; V_ASSUME(GJ_OK); \
    V_ASSUME(V_BOOL_OK(in.tab.all_complete) V_REP16(TB_BOOL_)); \
    session_table tb = in.tab; \
    session_table *t = &tb; \
    const uint8_t *mac = in.mac; \
    session_table o = tb; (void)o; (void)mac

void h_tab_find(void) {
    TAB_PROLOGUE(h_tab_find);
    V_ASSUME(FIND_ARGS_OK(t, mac));
    session_entry *r = session_table_find(t, mac, in.gen, in.seq);
    V_POST("C16.find-hit: find returns a live session with exactly that key", C16_FIND_HIT(t, mac, in.gen, r));
    V_POST("C16.find-miss: find reports absence only when no live session has the key", C16_FIND_MISS(t, mac, in.gen, r));
    V_POST("C16.find-iff: found iff present", (t == NULL || mac == NULL) ? r == NULL : ((r != NULL) == v_st_has(&o, mac, in.gen)));
    V_POST("C16.find-pure: find does not modify the table", t == NULL || v_entry_same(&t->entries[g_j], &o.entries[g_j]));
    V_CANARY("end");
}

void h_tab_add(void) {
    TAB_PROLOGUE(h_tab_add);
    V_ASSUME(ADD_ARGS_OK(t, mac));
    session_entry *r = session_table_add(t, mac, in.gen, in.seq);
    V_POST("C16.add-wf-count: count = number of live sessions", t->count == v_st_size(t));
    V_POST("C16.add-wf-unique: at most one session per (mapper, generation)", v_st_unique(t));
    V_POST("C16.add-wf-flag: all-complete exact", t->all_complete == v_st_allc(t));
    V_POST("C16.add-ret", C16_ADD_RET(t, mac, in.gen, in.seq, r));
    V_POST("C16.add-others: every other session untouched", C16_ADD_GJ(t, r, o.entries[g_j], o.count));
    V_POST("C16.add-full: add fails only on a full table and then disturbs nothing", C16_ADD_NULL(t, mac, r, o.count));
    if (t != NULL && mac != NULL) {
        bool had = v_st_has(&o, mac, in.gen);
        V_POST("C16.add-known-refreshes: adding a known session refreshes it instead of duplicating it",
               !had || (r != NULL && v_st_size(t) == v_st_size(&o)));
        V_POST("C16.add-new-inserts: a new session is inserted when there is room",
               had || v_st_size(&o) == ST_N || (r != NULL && v_st_size(t) == v_st_size(&o) + 1 && !r->complete));
        V_POST("C16.add-full-fails: adding to a full table fails", had || v_st_size(&o) < ST_N || r == NULL);
        V_POST("C16.add-bound: at most 16 sessions", v_st_size(t) <= ST_N);
    }
    V_CANARY("end");
}

void h_tab_remove(void) {
    TAB_PROLOGUE(h_tab_remove);
    V_ASSUME(ADD_ARGS_OK(t, mac));
    session_table_remove(t, mac, in.gen);
    V_POST("C16.remove-wf-count: count = number of live sessions", t->count == v_st_size(t));
    V_POST("C16.remove-wf-unique: at most one session per (mapper, generation)", v_st_unique(t));
    V_POST("C16.remove-wf-flag: all-complete exact", t->all_complete == v_st_allc(t));
    V_POST("C16.remove-gone: the session is no longer present", C16_REMOVE_GONE(t, mac, in.gen));
    V_POST("C16.remove-others: every other session untouched", C16_REMOVE_GJ(t, mac, in.gen, o.entries[g_j]));
    V_CANARY("end");
}

void h_tab_update(void) {
    TAB_PROLOGUE(h_tab_update);
    V_ASSUME(t == NULL || ST_WF_NOFLAG(t));      /* flag may be stale: a caller just wrote entry->complete */
    session_table_update_complete_status(t);
    V_POST("C16.update-wf: all-complete recomputed exactly", t == NULL || ST_WF(t));
    V_POST("C16.update-others", C16_UPD_GJ(t, o.entries[g_j], o.count));
    V_CANARY("end");
}

void h_tab_queries(void) {
    TAB_PROLOGUE(h_tab_queries);
    V_ASSUME(t == NULL || ST_WF(t));
    bool e = session_table_is_empty(t);
    bool c = session_table_all_complete(t);
    V_POST("C16.is-empty: empty reports exactly what the live sessions imply", e == (t == NULL || v_st_size(t) == 0));
    V_POST("C16.all-complete: all-complete reports exactly what the live sessions imply", c == (t == NULL || v_st_allc(t)));
    V_CANARY("end");
}

void h_tab_clear(void) {
    TAB_PROLOGUE(h_tab_clear);
    session_table_clear(t);
    V_POST("C16.clear", t == NULL || (ST_WF(t) && v_st_size(t) == 0 && t->all_complete));
    V_CANARY("end");
}

/* NULL arguments are tolerated by every operation (separate harness: pointers that may be NULL multiply
 * the case splits of every dereference in the main harnesses) */
void h_tab_nullargs(void) {
    V_INPUT(h_tab_nullargs, struct in_tab, in);
    V_ENV(in.cfg);
    g_j = in.gj; V_ASSUME(GJ_OK);
    V_ASSUME(V_BOOL_OK(in.tab.all_complete) V_REP16(TB_BOOL_));
    session_table tb = in.tab;
    V_ASSUME(ST_WF(&tb));
    session_table o = tb;
    V_POST("C16.null.find", session_table_find(NULL, in.mac, in.gen, in.seq) == NULL && session_table_find(&tb, NULL, in.gen, in.seq) == NULL);
    V_POST("C16.null.add", session_table_add(NULL, in.mac, in.gen, in.seq) == NULL && session_table_add(&tb, NULL, in.gen, in.seq) == NULL);
    session_table_remove(NULL, in.mac, in.gen);
    session_table_remove(&tb, NULL, in.gen);
    session_table_update_complete_status(NULL);
    session_table_clear(NULL);
    session_table_destroy(NULL);
    V_POST("C16.null.queries", session_table_is_empty(NULL) && session_table_all_complete(NULL));
    V_POST("C16.null.untouched: a call with a NULL argument leaves the table alone",
           v_entry_same_v(tb.entries[g_j], o.entries[g_j]) && tb.count == o.count && tb.all_complete == o.all_complete);
    V_CANARY("end");
}

void h_tab_create(void) {
    V_INPUT(h_tab_create, struct in_tab, in);
    V_ENV(in.cfg);
    uint32_t live0 = g_led.live;
    session_table *t = session_table_create();
    V_POST("C16.create: a new table is empty and well-formed", t == NULL || (ST_WF(t) && t->count == 0 && t->all_complete));
    V_POST("C18.ctor-table: creation reports failure instead of dereferencing a missing allocation",
           !(g_cfg.alloc_fail_mask & 1u) || t == NULL);
    V_POST("C18.ctor-ledger: nothing leaked by the constructor", g_led.live == live0 + (t ? 1u : 0u));
    if (t) { V_CANARY("ok"); } else { V_CANARY("null"); }
    V_CANARY("end");
}
