/* C07 / C19 — parseProbe and parseQuery of lltdBlock.c. */
#include "v_harness.h"
#include "lltdBlock.c"
#include "lltdWire.c"
#include "lltdTlvOps.c"
#include "v_state_builder.h"

#include "v_nocheck_push.h"      /* harness and specification code below: no implicit checks */

static int v_ctx_obj;
#ifndef V_MTU_FIXED
#define V_MTU_FIXED 576
#endif

#if defined(V_SYM_SMALL_MTU) || defined(V_FULL_SYM_MTU)
#define V_FIX_MTU() do { V_ASSUME(!g_cfg.mtu_fail); g_cfg.mtu_fail = 0; } while (0)
#else
#define V_FIX_MTU() do { V_ASSUME(g_cfg.mtu == V_MTU_FIXED && !g_cfg.mtu_fail); g_cfg.mtu = V_MTU_FIXED; g_cfg.mtu_fail = 0; } while (0)
#endif

struct in_pq {
    struct v_cfg cfg;
    uint8_t frame[V_MTU_FIXED];
    struct in_state is;
    uint32_t allocs0, tx0;
    uint8_t gj;
};

/* the received frame: an object of exactly MTU bytes */
#ifdef V_FULL_SYM_MTU
#define V_RX_FRAME(f) uint8_t *f = (uint8_t *)malloc(g_cfg.mtu); V_ASSUME(f != (uint8_t *)0)
#else
#define V_RX_FRAME(f) V_EXACT_OBJECT(f, in.frame, V_MTU_FIXED)
#endif
#define PQ_PROLOGUE(FN) \
    V_INPUT(FN, struct in_pq, in); \
    V_ENV_MTU(in.cfg); \
    V_FIX_MTU(); \
    g_ctx = &v_ctx_obj; \
    g_j = in.gj; \
    lltd_iface_state st; V_ZERO(st); \
    v_build_state(&st, &in.is, g_ctx); \
    V_ASSUME(ST_WF(&st)); \
    V_ASSUME(in.allocs0 < 1000 && in.tx0 < 1000); \
    g_led.allocs = in.allocs0; g_led.tx_attempts = in.tx0; g_req.tx_base = in.tx0; \
    V_RX_FRAME(f); \
    probe_t *head0 = st.see_list; uint32_t count0 = st.see_list_count, live0 = g_led.live; \
    lltd_iface_state o = st; (void)o

/* the MTU domain of the harness instance: the property's [576, 9216], or a small-frame instance (code uniform in MTU)
 * that brings the per-frame capacity below the bounded list length */
#if defined(V_SYM_SMALL_MTU)
/* symbolic small MTU 54..135 (capacity 1..5): every residue class of (MTU-34) mod 20, with the over-sized transmit object */
#define V_ENV_MTU(c) do { g_cfg = (c); V_ASSUME(g_cfg.mtu >= 54 && g_cfg.mtu <= 135 && !g_cfg.mtu_fail); \
                          { struct v_cfg c2_ = g_cfg; c2_.mtu = 576; V_ASSUME(v_cfg_ok(&c2_)); } v_env_reset(); } while (0)
#elif defined(V_SMALL_MTU)
#define V_ENV_MTU(c) do { g_cfg = (c); V_ASSUME(g_cfg.mtu == V_MTU_FIXED); g_cfg.mtu = V_MTU_FIXED; \
                          { struct v_cfg c2_ = g_cfg; c2_.mtu = 576; V_ASSUME(v_cfg_ok(&c2_)); } v_env_reset(); } while (0)
#else
#define V_ENV_MTU(c) V_ENV(c)
#endif

void h_parse_probe(void) {
    PQ_PROLOGUE(h_parse_probe);
    parseProbe(f, &st, g_ctx);
    V_POST("C07.probe-recorded-once: recorded iff addressed to this station and not seen before; fields as received; nothing sent",
           C07_PROBE(&st, f, head0, count0, live0, in.allocs0, in.tx0));
    V_POST("C10.observer-records: a Probe/Train whose real destination is this station (what a peer running this responder emits, C10.probe.real-dst) is recorded with the emitter as its source",
           C07_PROBE(&st, f, head0, count0, live0, in.allocs0, in.tx0));
    V_POST("C07.probe-foreign-ignored: frames addressed to other stations are never recorded",
           C07_PROBE_FOREIGN(&st, f, head0, in.allocs0));
    V_POST("C07.probe-wf: no observation twice, count = length", ST_WF(&st));
    V_POST("C19.probe-ledger: live memory = record + observations + cached icon", g_led.live == ST_LIVE(&st));
    V_POST("C19.see-list-bounded: retained observations never exceed the fixed bound", st.see_list_count <= V_SEE_MAX && V_SEE_MAX <= 65536u);
    V_POST("C07.probe-state-rest-untouched", st.mapper_known == o.mapper_known && st.mapper_seq == o.mapper_seq &&
           st.small_icon == o.small_icon && st.mapper_gen_topology == o.mapper_gen_topology);
    if (st.see_list_count == count0 + 1) { V_CANARY("recorded"); }
    V_CANARY("end");
}

void h_parse_query(void) {
    PQ_PROLOGUE(h_parse_query);
    /* snapshot of what must be listed, newest first */
    g_req.kind = V_K_QRESP;
    g_req.seq = v_be16(f + 30);
    for (int b = 0; b < 6; b++) { g_req.real_src.a[b] = f[24 + b]; g_req.eth_src.a[b] = f[6 + b]; }
    g_req.obs_n = count0; g_req.obs_cap = V_QRESP_CAP;
    for (unsigned k = 0; k < V_LIST_MAX; k++) {
        probe_t *p = v_nth(head0, k);
        if (p) {
            const uint8_t *t = (const uint8_t *)&p->type;
            g_req.obs[k].type_be[0] = t[0]; g_req.obs[k].type_be[1] = t[1];
            g_req.obs[k].real = p->realSourceAddr; g_req.obs[k].src = p->sourceAddr; g_req.obs[k].dst = p->destAddr;
        }
    }
    probe_t *suffix0 = (count0 > V_QRESP_CAP) ? v_nth(head0, V_QRESP_CAP) : (probe_t *)0;

    parseQuery(f, &st, g_ctx);

    V_POST("C07.query-mapper", C07_QUERY_MAPPER(&st, f));
    V_POST("C07.query-delivers-all: one response; what was listed is released, what did not fit is kept for the next Query",
           C07_QUERY_LIST(&st, head0, count0, live0, in.allocs0, in.tx0));
    V_POST("C07.query-keeps-rest: exactly the observations that did not fit remain, in order",
           !V_ALLOC_OK(in.allocs0, 0) || st.see_list == suffix0);
    V_POST("C07.query-wf", ST_SHAPE(&st));
    V_POST("C19.query-ledger: live memory = record + observations + cached icon", g_led.live == ST_LIVE(&st));
    if (g_led.tx_attempts == in.tx0 + 1) { V_CANARY("answered"); }
    if (count0 > V_QRESP_CAP) { V_CANARY("overflow"); }
    V_CANARY("end");
}
