/* C09 / C17 / C19 / C18 — per-interface state management of lltdBlock.c: lookup / creation of the record, release of the
 * observation list and of the icon cache. */
#include "v_harness.h"
#include "lltdBlock.c"
#include "lltdWire.c"
#include "lltdTlvOps.c"
#include "state_contracts.h"
#include "v_nocheck_push.h"
#include "v_state_builder.h"

static int v_ctx_a, v_ctx_b, v_ctx_c;

struct in_sf {
    struct v_cfg cfg;
    struct in_state r1, r2;
    uint8_t n_records;          /* 0, 1 or 2 records in the global list */
    uint8_t which;              /* context looked up: 0 = first record's, 1 = second record's, 2 = a new one */
};

static inline bool v_rec_same(const lltd_iface_state *a, const lltd_iface_state *b) {
    return a->iface_ctx == b->iface_ctx && a->next == b->next && a->see_list == b->see_list && a->see_list_count == b->see_list_count &&
           a->mapper_known == b->mapper_known && a->mapper_seq == b->mapper_seq && a->mapper_gen_topology == b->mapper_gen_topology &&
           a->mapper_gen_quick == b->mapper_gen_quick && a->small_icon == b->small_icon && a->small_icon_size == b->small_icon_size;
}

void h_state_for_iface(void) {
    V_INPUT(h_state_for_iface, struct in_sf, in);
    V_ENV(in.cfg);
    V_ASSUME(in.n_records <= 2 && in.which <= 2);
    lltd_iface_state *r1 = (lltd_iface_state *)0, *r2 = (lltd_iface_state *)0;
    uint32_t live = 0;
    if (in.n_records >= 1) {
        r1 = (lltd_iface_state *)malloc(sizeof(*r1)); V_ASSUME(r1 != (lltd_iface_state *)0);
        v_build_state(r1, &in.r1, &v_ctx_a); live += g_led.live;
    }
    if (in.n_records >= 2) {
        r2 = (lltd_iface_state *)malloc(sizeof(*r2)); V_ASSUME(r2 != (lltd_iface_state *)0);
        v_build_state(r2, &in.r2, &v_ctx_b); live += g_led.live;
        r1->next = r2;
    }
    g_led.live = live;
    g_iface_states = r1;
    void *ctx = in.which == 0 ? (void *)&v_ctx_a : in.which == 1 ? (void *)&v_ctx_b : (void *)&v_ctx_c;
    lltd_iface_state o1, o2; V_ZERO(o1); V_ZERO(o2);
    if (r1) o1 = *r1;
    if (r2) o2 = *r2;
    lltd_iface_state *head0 = g_iface_states;
    bool present = (in.which == 0 && r1 != NULL) || (in.which == 1 && r2 != NULL);

    lltd_iface_state *st = lltd_state_for_iface(ctx);

    if (r1) V_POST("C17.lookup-leaves-records: looking a record up (or creating one) modifies no existing record", v_rec_same(r1, &o1));
    if (r2) V_POST("C17.lookup-leaves-records: looking a record up (or creating one) modifies no existing record", v_rec_same(r2, &o2));
    if (present) {
        V_POST("C17.lookup-by-context: the record whose context equals the argument is returned, nothing is created",
               st == (in.which == 0 ? r1 : r2) && g_iface_states == head0 && g_led.allocs == 0 && g_led.live == live);
        V_CANARY("present");
    } else if (V_ALLOC_OK(0, 0)) {
        V_POST("C09.new-record-zeroed: a record created for a new interface is all-zero (fresh-start state) and linked at the head",
               st != NULL && st != r1 && st != r2 && st->iface_ctx == ctx && ST_FRESH_FIELDS(st) && st->next == head0 &&
               g_iface_states == st && g_led.live == live + 1);
        V_CANARY("created");
    } else {
        V_POST("C18.lookup-failure-leaves-list: when the record cannot be allocated nothing changes", st == NULL && g_iface_states == head0 && g_led.live == live);
        V_CANARY("failed");
    }
    V_CANARY("end");
}

struct in_clr { struct v_cfg cfg; struct in_state is; uint8_t null_st; };

void h_state_clear(void) {
    V_INPUT(h_state_clear, struct in_clr, in);
    V_ENV(in.cfg);
    lltd_iface_state st; V_ZERO(st);
    v_build_state(&st, &in.is, &v_ctx_a);
    V_ASSUME(ST_SHAPE(&st));
    lltd_iface_state o = st;
    uint32_t live0 = g_led.live;
    lltd_iface_state *p = in.null_st ? (lltd_iface_state *)0 : &st;
    lltd_state_clear_seen_probes(p);
    V_POST("C09.clear-observations: a Reset discards the record of observations",
           in.null_st ? (st.see_list == o.see_list) : (st.see_list == NULL && st.see_list_count == 0));
    V_POST("C19.clear-observations-ledger: every observation node is released", g_led.live == live0 - (in.null_st ? 0u : o.see_list_count));
    V_POST("C09.clear-observations-rest-untouched", st.small_icon == o.small_icon && st.mapper_known == o.mapper_known && st.mapper_seq == o.mapper_seq);
    uint32_t live1 = g_led.live;
    lltd_state_clear_icon_cache(p);
    V_POST("C09.clear-icon: a Reset drops the cached icon", in.null_st ? (st.small_icon == o.small_icon) : (st.small_icon == NULL && st.small_icon_size == 0));
    V_POST("C19.clear-icon-ledger", g_led.live == live1 - ((!in.null_st && o.small_icon != NULL) ? 1u : 0u));
    V_POST("C19.reset-leaves-only-the-record", in.null_st || g_led.live == 1u);
    V_CANARY("end");
}
