/* C01 / C17 / C18 (daemon glue) — os/linux/daemon/linux-embedded-main.c, the file the Linux embedded daemon is built from.
 *
 * The core proofs ASSUME (A4) that a frame reaches parseFrame in a receive buffer of exactly MTU bytes, MTU being what
 * lltd_port_get_mtu reports for that interface, and that the automata handed to switch_state_* are the closed automata
 * the constructors build.  Here these assumptions become call-site obligations of the daemon itself:
 *
 *   fillInterfaceDetails  E  - on success the receive buffer is an object of exactly iface->MTU bytes (MTU as the kernel reports it, 1500 otherwise)
 *   lltdLoop              E  - every recvfrom is told no more than the buffer holds; parseFrame / switch_state_* are REPLACED by contracts
 *                              whose preconditions are the core's (PRE_frame with the Linux getter's MTU = iface->MTU, PRE_switch);
 *                              the receive loop is closed by a LOOP CONTRACT (unbounded number of frames)
 *   main                  E  - every thread is started on a context that satisfies lltdLoop's precondition (PRE_lltdLoop at pthread_create),
 *                              with fillInterfaceDetails and the constructors replaced by their proved contracts
 *
 * With -DV_SYSTEMD the same harness is built around os/linux/daemon/linux-main.c (the systemd / NetworkManager variant, the
 * default `make` target): its fillInterfaceDetails and lltdLoop are proved against the same contracts.
 *
 * The file under proof is included unmodified.  Two names are redirected by the preprocessor, stated exactly: `main` (to
 * lltd_embedded_main, the harness owns the entry point) and the variadic `ioctl` (to a three-argument model).  libc / kernel
 * functions are modelled below (trusted: environment model E1 in the evidence). */
#include <errno.h>
#include <ifaddrs.h>
#include <linux/if_ether.h>
#include <net/if.h>
#include <netpacket/packet.h>
#include <pthread.h>
#include <signal.h>
#include <stdbool.h>
#include <stdio.h>
#include <stdlib.h>
#include <string.h>
#include <sys/ioctl.h>
#include <sys/socket.h>
#include <unistd.h>

#include "v_harness.h"
#include "automata_contracts.h"

/* ------------------------------------------------------------------ environment model (kernel / libc) */
struct v_lenv {
    int sock_rc, bind_rc, mtu_rc, hw_rc, fl_rc;
    int mtu;                      /* what SIOCGIFMTU reports */
    uint8_t hw[6];
    short ifflags;
    unsigned ifindex;
    uint8_t n_if;                 /* interfaces getifaddrs lists (0..2) */
    char name[2][4];
    unsigned flags[2];
    uint8_t gia_fail;
};
static struct v_lenv g_lenv;
static unsigned g_threads;        /* ghost: threads started */
static unsigned g_rx_calls;       /* ghost: recvfrom calls */

#include "v_nocheck_push.h"
/* Linux: ETH_MIN_MTU = 68, IP_MAX_MTU = 65535 - the kernel refuses anything else on an Ethernet-like device */
#define V_LENV_OK() (g_lenv.mtu >= 68 && g_lenv.mtu <= 65535 && g_lenv.n_if <= 2 && g_lenv.name[0][3] == 0 && g_lenv.name[1][3] == 0 && \
                     g_lenv.name[0][0] != 0 && g_lenv.name[1][0] != 0)

int v_ioctl(int fd, unsigned long req, struct ifreq *ifr) {
    (void)fd;
    if (req == SIOCGIFMTU) { if (g_lenv.mtu_rc != 0) return -1; ifr->ifr_mtu = g_lenv.mtu; return 0; }
    if (req == SIOCGIFHWADDR) { if (g_lenv.hw_rc != 0) return -1; for (int i = 0; i < 6; i++) ifr->ifr_hwaddr.sa_data[i] = (char)g_lenv.hw[i]; return 0; }
    if (req == SIOCGIFFLAGS) { if (g_lenv.fl_rc != 0) return -1; ifr->ifr_flags = g_lenv.ifflags; return 0; }
    return -1;
}
int socket(int d, int t, int p) { (void)d; (void)t; (void)p; return g_lenv.sock_rc < 0 ? -1 : 3; }
int bind(int fd, const struct sockaddr *a, socklen_t l) { (void)fd; (void)a; (void)l; return g_lenv.bind_rc < 0 ? -1 : 0; }
int close(int fd) { (void)fd; return 0; }
unsigned int if_nametoindex(const char *n) { (void)n; return g_lenv.ifindex; }
unsigned int sleep(unsigned int s);
char *getenv(const char *n) { (void)n; return (char *)0; }
__sighandler_t signal(int s, __sighandler_t h) { (void)s; return h; }
int pthread_join(pthread_t t, void **r) { (void)t; (void)r; return 0; }
static struct ifaddrs v_ifa[2];
int getifaddrs(struct ifaddrs **out) {
    if (g_lenv.gia_fail) return -1;
    for (int i = 0; i < 2; i++) { v_ifa[i].ifa_name = g_lenv.name[i]; v_ifa[i].ifa_flags = g_lenv.flags[i]; v_ifa[i].ifa_next = (struct ifaddrs *)0; }
    if (g_lenv.n_if == 2) v_ifa[0].ifa_next = &v_ifa[1];
    *out = g_lenv.n_if ? &v_ifa[0] : (struct ifaddrs *)0;
    return 0;
}
void freeifaddrs(struct ifaddrs *p) { (void)p; }
/* constant-size models of the two libc allocators main uses for the NAME LIST (symbolic-size objects whose contents are read
 * again exhaust memory): interface names have at most 3 characters in this model, the list at most 2 entries */
char *strdup(const char *s) {
    char *p = (char *)malloc(4);
    if (!p) return (char *)0;
    p[0] = s[0]; p[1] = s[0] ? s[1] : 0; p[2] = (s[0] && s[1]) ? s[2] : 0; p[3] = 0;
    return p;
}
void *realloc(void *old, size_t n) {
    V_REQUIRE("model.realloc-capacity: the name list has at most 2 entries in this model", n <= 2 * sizeof(char *));
    char **q = (char **)malloc(2 * sizeof(char *));
    if (!q) return (void *)0;
    if (old) { q[0] = ((char **)old)[0]; free(old); }
    return q;
}
/* console logging: /dev/console cannot be opened, messages go to stderr (their text is not observed) */
FILE *fopen(const char *p, const char *m) { (void)p; (void)m; return (FILE *)0; }
#ifdef V_SYSTEMD
#include <stdarg.h>
int sd_journal_print_with_location(int priority, const char *file, const char *line, const char *func, const char *format, ...) { (void)priority; (void)file; (void)line; (void)func; (void)format; return 0; }
#endif
FILE *fopen64(const char *p, const char *m) { (void)p; (void)m; return (FILE *)0; }
#include "v_nocheck_pop.h"

#define ioctl v_ioctl
#define main lltd_embedded_main
#ifdef V_SYSTEMD
#include "os/linux/daemon/linux-main.c"
#define V_CTX_T linux_interface_ctx_t
#else
#include "os/linux/daemon/linux-embedded-main.c"
#define V_CTX_T embedded_interface_ctx_t
#endif
#undef main
#undef ioctl

#include "v_nocheck_push.h"

/* ------------------------------------------------------------------ contracts of the daemon's functions */
/* the Linux port's lltd_port_get_mtu(iface) returns iface->MTU (proved: harness linux_getters, C04.linux-mtu), so the core's
 * PRE_frame(frame) = "frame is an object of v_eff_mtu() bytes" reads, on this port: */
#define PRE_frame_linux(frame, ifc)   (V_RW_OK((frame), ((const network_interface_t *)(ifc))->MTU))
#define RXBUF_EXACT(ifc)  ((ifc)->recvBuffer != NULL && __CPROVER_POINTER_OFFSET((ifc)->recvBuffer) == 0 && \
                           __CPROVER_OBJECT_SIZE((ifc)->recvBuffer) == (ifc)->MTU && V_RW_OK((ifc)->recvBuffer, (ifc)->MTU))
#define PRE_lltdLoop(c)   (V_RW_OK((c), sizeof(V_CTX_T)) && (c)->iface.MTU >= 68u && RXBUF_EXACT(&(c)->iface) && \
                           (c)->mapping != NULL && PRE_switch((c)->mapping) && (c)->session != NULL && PRE_switch((c)->session))

/* core entry point, daemon side: the precondition is the one the core proofs rely on */
void parseFrame(void *frame, void *iface_ctx)
__CPROVER_requires(iface_ctx != NULL && V_RW_OK(iface_ctx, sizeof(network_interface_t))) /*@C17.daemon-own-context*/
__CPROVER_requires(PRE_frame_linux(frame, iface_ctx)) /*@C01.daemon-rx-buffer-mtu-sized*/
__CPROVER_assigns()       /* the core writes its own records and what the port writes for it - nothing of the daemon's (C17.no-unsynchronised-shared-write is decided in the core) */
;

static bool fillInterfaceDetails(network_interface_t *iface, const char *ifname)
__CPROVER_requires(V_RW_OK(iface, sizeof(network_interface_t)))
__CPROVER_requires(V_R_OK(ifname, 4) && ifname[3] == 0)
__CPROVER_assigns(*iface)
__CPROVER_ensures(!__CPROVER_return_value || __CPROVER_is_fresh(iface->recvBuffer, iface->MTU)) /*@C01.daemon-rx-buffer-allocated*/
__CPROVER_ensures(!__CPROVER_return_value || RXBUF_EXACT(iface)) /*@C01.daemon-rx-buffer-exact*/
__CPROVER_ensures(!__CPROVER_return_value || iface->MTU == (g_lenv.mtu_rc == 0 ? (uint32_t)g_lenv.mtu : 1500u)) /*@C01.daemon-mtu-source C04.daemon-mtu-source*/
__CPROVER_ensures(!__CPROVER_return_value || g_lenv.hw_rc != 0 || v_mac_eq(iface->macAddress, g_lenv.hw)) /*@C04.daemon-mac-source*/
;

static void *lltdLoop(void *data)
__CPROVER_requires(PRE_lltdLoop((V_CTX_T *)data))
__CPROVER_assigns(exitFlag, g_rx_calls, g_led)
__CPROVER_assigns(__CPROVER_object_whole(((V_CTX_T *)data)->iface.recvBuffer))
__CPROVER_assigns(((V_CTX_T *)data)->mapping->current_state, ((V_CTX_T *)data)->mapping->last_ts)
__CPROVER_assigns(((V_CTX_T *)data)->session->current_state, ((V_CTX_T *)data)->session->last_ts)
__CPROVER_ensures(PRE_lltdLoop((V_CTX_T *)data)) /*@C01.daemon-loop-preserves*/
;

/* kernel: delivers at most len bytes into buf; obligation: buf really holds len bytes */
ssize_t recvfrom(int fd, void *buf, size_t len, int fl, struct sockaddr *a, socklen_t *al) {
    (void)fd; (void)fl; (void)a; (void)al;
    V_REQUIRE("C01.daemon-recv-fits: recvfrom is told no more bytes than the receive buffer holds", V_RW_OK(buf, len));
    g_rx_calls++;
    ssize_t n; uint8_t stop;
    if (len > 0) { size_t k; V_ASSUME(k < len); uint8_t v; ((uint8_t *)buf)[k] = v; }      /* arbitrary contents (any one byte, any position) */
    if (stop) exitFlag = 1;
    V_ASSUME(n >= -1 && n <= (ssize_t)len);
    return n;
}

/* thread start: obligation = the started routine's precondition holds for its argument */
int pthread_create(pthread_t *t, const pthread_attr_t *at, void *(*fn)(void *), void *arg) {
    (void)t; (void)at;
    V_REQUIRE("C17.daemon-thread-routine: every interface thread runs lltdLoop", fn == lltdLoop);
    V_REQUIRE("C18.daemon-thread-context: the context handed to the receive thread satisfies lltdLoop's precondition (MTU-sized buffer, both automata present and closed)",
              PRE_lltdLoop((V_CTX_T *)arg));
    g_threads++;
    return 0;
}
unsigned int sleep(unsigned int s) { (void)s; exitFlag = 1; return 0; }

struct in_ld { struct v_cfg cfg; struct v_lenv env; uint8_t s1, s2; };
#ifndef V_NIF
#define V_NIF 1
#endif

/* ---- fillInterfaceDetails */
void h_linux_fill(void) {
    V_INPUT(h_linux_fill, struct in_ld, in);
    V_ENV(in.cfg);
    g_lenv = in.env; V_ASSUME(V_LENV_OK());
    network_interface_t *nif = (network_interface_t *)malloc(sizeof(*nif)); V_ASSUME(nif != NULL);
    bool ok = fillInterfaceDetails(nif, g_lenv.name[0]);
    if (ok) { V_CANARY("ok"); } else { V_CANARY("failed"); }
    V_CANARY("end");
}

/* ---- lltdLoop: any number of frames */
void h_linux_loop(void) {
    V_INPUT(h_linux_loop, struct in_ld, in);
    V_ENV(in.cfg);
    g_cfg.alloc_fail_mask = 0;
    g_lenv = in.env; V_ASSUME(V_LENV_OK());
    V_CTX_T *ctx = (V_CTX_T *)malloc(sizeof(*ctx)); V_ASSUME(ctx != NULL);
    ctx->iface.MTU = (uint32_t)g_lenv.mtu;
    ctx->iface.recvBuffer = malloc(ctx->iface.MTU); V_ASSUME(ctx->iface.recvBuffer != NULL);
    ctx->mapping = (automata *)malloc(sizeof(automata)); ctx->session = (automata *)malloc(sizeof(automata));
    V_ASSUME(ctx->mapping != NULL && ctx->session != NULL);
    V_ASSUME(PRE_switch(ctx->mapping) && PRE_switch(ctx->session));
    exitFlag = 0;
    lltdLoop(ctx);
    V_POST("C01.daemon-loop-preserves: the loop leaves its context intact", PRE_lltdLoop(ctx));
    V_CANARY("end");
}

/* ---- main: interface discovery, per-interface start */
void h_linux_main(void) {
    V_INPUT(h_linux_main, struct in_ld, in);
    V_ENV(in.cfg);
    g_lenv = in.env; V_ASSUME(V_LENV_OK());
    /* interface discovery with constants (two interfaces "a" and "b", both up): an interface COUNT that is symbolic makes the
     * calloc / realloc of main symbolic-size objects whose contents are read - out of memory at 24 GB.  Everything per
     * interface (socket, bind, every ioctl, the MTU, every allocation of fillInterfaceDetails and of the constructors) stays symbolic. */
    g_lenv.n_if = V_NIF; g_lenv.gia_fail = 0;
    g_lenv.name[0][0] = 'a'; g_lenv.name[0][1] = 0; g_lenv.name[1][0] = 'b'; g_lenv.name[1][1] = 0;
    g_lenv.flags[0] = IFF_UP; g_lenv.flags[1] = IFF_UP;
    exitFlag = 0; g_threads = 0;
    const char *argv[2] = { "lltd", (const char *)0 };
    int rc = lltd_embedded_main(1, argv);
    (void)rc;
    if (g_threads == 0) { V_CANARY("none"); }
    if (g_threads == 1) { V_CANARY("one"); }
    if (g_threads == 2) { V_CANARY("two"); }
    V_CANARY("end");
}
