/* C12 / C14 / C16 — automata_tick and the mapping timers of lltdAutomata.c (built WITHOUT LLTD_TESTING, so the real
 * transmit call through port->send_hello is what is proved). */
#include "v_harness.h"
#include "automata_contracts.h"
#include "lltdAutomata.c"
#include "v_nocheck_push.h"      /* harness and specification code below: no implicit checks */

/* verification-port body of the send_hello callback: records a periodic Hello */
static void v_send_hello(void *network_interface) {
    g_led.hello_periodic++;
    g_led.hello_ni = network_interface;
}

struct in_tick {
    struct v_cfg cfg;
    uint8_t map_state, enum_state;
    uint64_t map_last, enum_last;
    mapping_state ms;
    band_state band;
    session_table tab;
    uint64_t last_tx;
    uint8_t null_map, null_enum, null_tab, null_port, null_lasttx, null_cb, null_ni;
    uint8_t gj;
};
#define TB_BOOL_(i) && V_BOOL_OK(in.tab.entries[i].valid) && V_BOOL_OK(in.tab.entries[i].complete)

void h_tick(void) {
    V_INPUT(h_tick, struct in_tick, in);
    V_ENV(in.cfg);
    g_j = in.gj; V_ASSUME(GJ_OK);
    V_ASSUME((g_cfg.alloc_fail_mask & 15u) == 0);          /* constructors succeed (their failure: C18) */
    V_ASSUME(V_BOOL_OK(in.tab.all_complete) V_REP16(TB_BOOL_) && V_BOOL_OK(in.band.begun));
    automata *mp = init_automata_mapping();
    automata *en = init_automata_enumeration();
    V_ASSUME(mp != NULL && en != NULL && mp->extra != NULL && en->extra != NULL);
    /* arbitrary reachable automaton states (closure: the step functions assign only state and last_ts) */
    V_ASSUME(in.map_state <= 2 && in.enum_state <= 2);
    mp->current_state = in.map_state; mp->last_ts = in.map_last;
    en->current_state = in.enum_state; en->last_ts = in.enum_last;
    *(mapping_state *)mp->extra = in.ms;
    *(band_state *)en->extra = in.band;
    V_ASSUME(BAND_OK(&in.band));
    session_table tb = in.tab;
    V_ASSUME(ST_WF(&tb));
    uint64_t last_tx = in.last_tx;
    lltd_automata_tick_port port;
    port.network_interface = in.null_ni ? (void *)0 : (void *)&port;
    port.last_hello_tx_ms = in.null_lasttx ? (uint64_t *)0 : &last_tx;
    port.send_hello = in.null_cb ? (void (*)(void *))0 : v_send_hello;
    automata *mapping = in.null_map ? NULL : mp;
    automata *enumeration = in.null_enum ? NULL : en;
    session_table *sessions = in.null_tab ? NULL : &tb;
    const lltd_automata_tick_port *pp = in.null_port ? NULL : &port;
    V_ASSUME(in.map_last <= v_now_s() && in.enum_last <= v_now_s());
    /* invariant carried between ticks: the recorded last transmit lies in the past */
    V_ASSUME(in.last_tx <= v_now_ms());
    session_table o = tb;
    mapping_state ms0 = in.ms;
    band_state b0 = in.band;
    uint8_t es0 = in.enum_state;

    automata_tick(mapping, enumeration, sessions, pp);

    uint64_t now_ms = v_now_ms(), now_s = v_now_s();
    mapping_state *ms = (mapping_state *)mp->extra;
    band_state *band = (band_state *)en->extra;
    bool inactive_fired = mapping != NULL && ms0.inactive_timeout_ts != 0 && now_s >= ms0.inactive_timeout_ts;
    bool sent = g_led.hello_periodic > 0;

    /* ---- C14: 30 s without any frame: the tick ends the session */
    if (inactive_fired) {
        V_POST("C14.tick-ends-session: inactivity deadline reached -> engine idle", mp->current_state == 0);
        V_POST("C14.tick-clears-charge: charge counter and its deadline cleared", ms->ctc == 0 && ms->charge_timeout_ts == 0);
        V_POST("C14.tick-deadline-cleared", ms->inactive_timeout_ts == 0);
        V_POST("C14,C12.tick-empties-table: 30 s without any frame - the tick empties the session table (whatever state the engine is in)", sessions == NULL || (v_st_size(&tb) == 0 && tb.count == 0));
        V_CANARY("inactive");
    } else if (mapping != NULL) {
        V_POST("C14.tick-otherwise-keeps-state: no deadline, no state change", mp->current_state == in.map_state &&
               ms->inactive_timeout_ts == ms0.inactive_timeout_ts);
    }
    /* ---- C16: expiry sweep */
    if (sessions != NULL) {
        V_POST("C16.tick-wf: table well-formed after the tick", ST_WF(&tb));
        if (!inactive_fired) {
            session_entry e0 = o.entries[g_j], e1 = tb.entries[g_j];
            bool expire = e0.valid && now_s > e0.last_activity_ts + 60;
            V_POST("C16.tick-expiry: a session idle for more than 60 s is removed, fresher ones survive untouched",
                   expire ? !e1.valid : v_entry_same_v(e1, e0));
            V_CANARY("sweep");
        }
    }
    /* ---- C12: periodic Hello gate */
    V_POST("C12.at-most-one: at most one periodic Hello per tick", g_led.hello_periodic <= 1);
    if (sent) {
        V_POST("C12.sent-needs-incomplete-session: only while some live session is not complete",
               sessions != NULL && v_st_size(&tb) > 0 && !v_st_allc(&tb));
        V_POST("C12.sent-pacing: never less than one second after the previous periodic Hello",
               in.null_lasttx || in.last_tx == 0 || now_ms - in.last_tx >= 1000u);
        V_POST("C12.sent-records-time: transmit time recorded", in.null_lasttx || last_tx == now_ms);
        /* (a clause "next deadline >= now + 1000" was removed: the block-end branch of the same tick may legitimately
         *  re-schedule sooner; the one-second spacing is carried by the recorded transmit time, which is what C12 states) */
        V_POST("C12.sent-on-own-interface", g_led.hello_ni == port.network_interface);
        V_CANARY("sent");
    } else {
        V_POST("C12.unsent-keeps-time: no transmit, recorded time untouched", last_tx == in.last_tx);
    }
    if (enumeration != NULL) {
        bool empty = sessions == NULL || v_st_size(&tb) == 0;
        V_POST("C12.empty-table-silent: empty table -> no periodic Hello", !empty || !sent);
        V_POST("C12.all-complete-silent: every session complete -> no periodic Hello",
               !(sessions != NULL && v_st_allc(&tb)) || !sent);
        V_POST("C12.empty-table-quiesces: empty table -> enumeration idle, deadlines cleared",
               !(empty && es0 != 0) || (en->current_state == 0 && band->hello_timeout_ts == 0 && band->block_timeout_ts == 0));
        V_POST("C13.ni-range: count stays within [ALPHA, NMAX]", BAND_OK(band));
        /* C13 through the tick: at the end of a block the count is recomputed and the next Hello re-scheduled by the load formula */
        if (en->current_state == 1 && b0.block_timeout_ts > 0 && now_ms >= b0.block_timeout_ts && !sent && !empty &&
            !(b0.hello_timeout_ts > 0 && now_ms >= b0.hello_timeout_ts)) {
            V_POST("C13.tick-block-end: block end applies the count formula", C13_NI_FORMULA(band, b0.r, b0.begun, b0.Ni) && band->r == 0);
            V_POST("C13.tick-reschedule: next Hello no sooner than the load formula allows for the new count",
                   band->hello_timeout_ts >= now_ms + v_spec_interval(band->Ni));
            V_CANARY("block");
        }
    }
    V_CANARY("end");
}

/* ---- mapping timers ---- */
struct in_mt { struct v_cfg cfg; mapping_state ms; uint8_t null_arg; };
#define MT_PROLOGUE(FN) \
    V_INPUT(FN, struct in_mt, in); V_ENV(in.cfg); \
    mapping_state m = in.ms; mapping_state *mp = in.null_arg ? NULL : &m; mapping_state o = m; (void)o

void h_mt_reset_charge(void) {
    MT_PROLOGUE(h_mt_reset_charge);
    mapping_reset_charge(mp);
    V_POST("C14.reset-charge", mp == NULL || (m.ctc == 0 && m.charge_timeout_ts == 0 && m.inactive_timeout_ts == o.inactive_timeout_ts));
    V_CANARY("end");
}
void h_mt_on_charge(void) {
    MT_PROLOGUE(h_mt_on_charge);
    mapping_on_charge(mp);
    V_POST("C14.on-charge", mp == NULL || (m.ctc == (uint8_t)(o.ctc + 1) && m.charge_timeout_ts == v_now_s() + 1 &&
                                           m.inactive_timeout_ts == o.inactive_timeout_ts));
    V_CANARY("end");
}
void h_mt_check_charge(void) {
    MT_PROLOGUE(h_mt_check_charge);
    bool r = mapping_check_charge_timeout(mp);
    V_POST("C14.check-charge", C14_CHECK_CHARGE(mp, r, o.ctc, o.charge_timeout_ts));
    V_CANARY("end");
}
void h_mt_check_inactive(void) {
    MT_PROLOGUE(h_mt_check_inactive);
    bool r = mapping_check_inactive_timeout(mp);
    V_POST("C14.check-inactive", C14_CHECK_INACTIVE(mp, r));
    V_POST("C14.check-inactive-pure", m.ctc == o.ctc && m.charge_timeout_ts == o.charge_timeout_ts && m.inactive_timeout_ts == o.inactive_timeout_ts);
    V_CANARY("end");
}
void h_mt_reset_inactive(void) {
    MT_PROLOGUE(h_mt_reset_inactive);
    mapping_reset_inactive_timeout(mp);
    V_POST("C14.inactive-deadline: 30 s inactivity deadline", mp == NULL || (m.inactive_timeout_ts == v_now_s() + 30 && m.ctc == o.ctc));
    V_CANARY("end");
}
