/* C06 / C10 (emitter half) — sendProbeMsg and parseEmit of lltdBlock.c. */
#include "v_harness.h"
#include "lltdBlock.c"        /* the real code; pulls in lltdBlock_contracts.h through the guarded hook */
#include "lltdWire.c"
#include "lltdTlvOps.c"

#include "v_nocheck_push.h"      /* harness and specification code below: no implicit checks */

static int v_ctx_obj;

struct in_probe {
    struct v_cfg cfg;
    ethernet_address_t src, dst, mapper_real, mapper_apparent;
    uint16_t mapper_seq;
    uint8_t pause, type, ack;
    uint32_t allocs0, tx0, sleep0;
};

void h_send_probe(void) {
    V_INPUT(h_send_probe, struct in_probe, in);
    V_ENV(in.cfg);
    g_ctx = &v_ctx_obj;
    V_ASSUME(in.type <= 1 && in.ack <= 1);
    lltd_iface_state st;
#ifdef V_REPLAY
    memset(&st, 0xA5, sizeof(st));
#endif
    st.mapper_known = 1;
    st.mapper_real = in.mapper_real; st.mapper_apparent = in.mapper_apparent; st.mapper_seq = in.mapper_seq;
    st.see_list = (probe_t *)0; st.see_list_count = 0; st.small_icon = (void *)0; st.small_icon_size = 0;
    /* arbitrary position in the fault masks */
    g_led.allocs = in.allocs0; g_led.tx_attempts = in.tx0; g_led.sleep_calls = in.sleep0;
    V_ASSUME(in.allocs0 < 1000 && in.tx0 < 1000 && in.sleep0 < 1000);
    g_req.kind = V_K_PROBE; g_req.tx_base = in.tx0; g_req.sleep_base = in.sleep0;
    g_req.d_src = in.src; g_req.d_dst = in.dst; g_req.d_type = in.type; g_req.d_pause = in.pause; g_req.d_ack = in.ack;
    g_req.mapper_real = in.mapper_real; g_req.mapper_apparent = in.mapper_apparent; g_req.mapper_seq = in.mapper_seq;
    uint32_t live0 = g_led.live, tp0 = g_led.tx_op[3] + g_led.tx_op[4], ta0 = g_led.tx_op[5];
    lltd_iface_state o = st;

    bool r = sendProbeMsg(in.src, in.dst, &st, g_ctx, (int)in.pause, in.type, in.ack != 0);

    V_POST("C06.probe-ledger: one Probe/Train (after its pause), one ACK when requested, nothing leaked",
           C06_PROBE_LEDGER(in.ack != 0, in.type, in.allocs0, in.tx0, live0, in.sleep0, tp0, ta0));
    V_POST("C06.probe-ret", C06_PROBE_RET(r, in.allocs0, in.tx0));
    V_POST("C06.probe-state-untouched", st.mapper_known == o.mapper_known && st.mapper_seq == o.mapper_seq &&
           v_mac_eq(st.mapper_real.a, o.mapper_real.a) && v_mac_eq(st.mapper_apparent.a, o.mapper_apparent.a) &&
           st.see_list == o.see_list && st.see_list_count == o.see_list_count);
    if (g_led.tx_attempts == in.tx0 + 2) { V_CANARY("acked"); }
    if (g_led.tx_attempts == in.tx0) { V_CANARY("allocfail"); }
    V_CANARY("end");
}

/* ---- parseEmit: frame object of exactly MTU bytes (MTU fixed per harness instance), all contents symbolic,
 * descriptor loop fully unwound (complete for this MTU: the unwinding assertion is an obligation) ---- */
#ifndef V_MTU_FIXED
#define V_MTU_FIXED 576
#endif
struct in_emit {
    struct v_cfg cfg;
    uint8_t frame[V_MTU_FIXED];
    ethernet_address_t mapper_real, mapper_apparent;
    uint16_t mapper_seq;
    uint8_t mapper_known;
};

/* small-frame instances (MTU below the property's range, code uniform in MTU): a MAXIMUM-SIZE Emit - as many descriptors as
 * the frame holds, the last one ending on or near the last byte of the receive buffer - becomes reachable with n <= 3 */
#ifdef V_SMALL_MTU
#define V_ENV_EMIT(c) do { g_cfg = (c); V_ASSUME(g_cfg.mtu == V_MTU_FIXED); \
                           { struct v_cfg c2_ = g_cfg; c2_.mtu = 576; V_ASSUME(v_cfg_ok(&c2_)); } v_env_reset(); } while (0)
#else
#define V_ENV_EMIT(c) V_ENV(c)
#endif
#define EMIT_PROLOGUE(FN) \
    V_INPUT(FN, struct in_emit, in); \
    V_ENV_EMIT(in.cfg); \
    V_ASSUME(g_cfg.mtu == V_MTU_FIXED && !g_cfg.mtu_fail); g_cfg.mtu = V_MTU_FIXED; g_cfg.mtu_fail = 0; \
    g_ctx = &v_ctx_obj; \
    V_ASSUME(in.mapper_known <= 1); \
    lltd_iface_state st; \
    V_ZERO(st); \
    st.iface_ctx = g_ctx; st.next = (lltd_iface_state *)0; \
    st.mapper_known = in.mapper_known; st.mapper_real = in.mapper_real; st.mapper_apparent = in.mapper_apparent; \
    st.mapper_seq = in.mapper_seq; st.mapper_gen_topology = 0; st.mapper_gen_quick = 0; \
    st.see_list = (probe_t *)0; st.see_list_count = 0; st.small_icon = (void *)0; st.small_icon_size = 0; \
    V_EXACT_OBJECT(f, in.frame, V_MTU_FIXED); \
    uint16_t n = v_be16(f + 32); \
    uint32_t live0 = g_led.live; \
    lltd_iface_state o = st

/* general: any count, any kinds, any faults; sendProbeMsg replaced by its contract */
void h_parse_emit(void) {
    EMIT_PROLOGUE(h_parse_emit);
    (void)n;
    parseEmit(f, &st, g_ctx);
    V_POST("C06.emit-state", C06_EMIT_STATE(&st, f, o.mapper_known, o.mapper_real, o.mapper_apparent));
    V_POST("C06.count-bound: a declared count larger than the frame can carry never yields more frames than a maximum-size Emit",
           C06_EMIT_BOUND(0u, live0));
    V_CANARY("end");
}

/* the property's positive clause: n >= 1 descriptors that fit, kinds in {0,1}, no faults; the real sendProbeMsg is
 * inlined and every transmitted frame is checked by the transmit oracle against the descriptor it belongs to */
void h_parse_emit_strict(void) {
    EMIT_PROLOGUE(h_parse_emit_strict);
#ifndef V_STRICT_N
#define V_STRICT_N 4
#endif
    V_ASSUME(n >= 1 && n <= V_STRICT_N && n <= V_EMIT_CAP(V_MTU_FIXED));
    g_cfg.alloc_fail_mask = 0; g_cfg.send_fail_mask = 0;          /* assignments, so that the ledger stays concrete */
    for (unsigned i = 0; i < V_STRICT_N; i++) {
        if (i < n) V_ASSUME(f[34 + 14 * i] <= 1);
    }
    g_req.kind = V_K_PROBE; g_req.emit_frame = f; g_req.emit_n = n;
    /* the mapper the ACK must go to: the active one, or this Emit's sender when none was active */
    if (in.mapper_known) { g_req.mapper_real = in.mapper_real; g_req.mapper_apparent = in.mapper_apparent; }
    else { for (int b = 0; b < 6; b++) { g_req.mapper_real.a[b] = f[24 + b]; g_req.mapper_apparent.a[b] = f[6 + b]; } }
    g_req.mapper_seq = v_be16(f + 30);

    parseEmit(f, &st, g_ctx);

    V_POST("C06.emit-state", C06_EMIT_STATE(&st, f, o.mapper_known, o.mapper_real, o.mapper_apparent));
    V_POST("C06.exact-count: exactly n Probe/Train frames then exactly one ACK",
           g_led.tx_op[3] + g_led.tx_op[4] == n && g_led.tx_op[5] == 1u && g_led.tx_attempts == (uint32_t)n + 1u);
    V_POST("C06.ack-last: the ACK is the last frame", g_led.last_op == 0x05);
    V_POST("C19.emit-ledger: every buffer released", g_led.live == live0);
    V_CANARY("end");
}
