/* C04 (writers) / C01 / C02 — the property writers of lltdTlvOps.c and the header writers of lltdWire.c, each against
 * the specification functions of the transmit oracle. */
#include "v_harness.h"
#include "tlv_contracts.h"
#include "lltdTlvOps.c"
#include "lltdWire.c"
#include "v_nocheck_push.h"

static int v_ctx_obj;
#define BUF_N 160

struct in_tlv {
    struct v_cfg cfg;
    uint8_t buf[BUF_N];
    size_t off;
    uint8_t which;
    size_t gk; size_t gj;
};

/* common epilogue: the property at buf+off is well-formed and carries the configured attribute; nothing outside
 * [off, off + ret) was written (ghost byte g_j) */
#define W_CHECK(ret, type, may_be_absent) do { \
    if ((ret) == 0) { \
        V_POST("C04.writer-absent-only-when-unavailable: a property is omitted only when the platform does not provide it", may_be_absent); \
        V_POST("C02.writer-absent-writes-nothing", b[g_j] == o[g_j]); \
    } else { \
        V_POST("C04.writer-wellformed: type, length, size returned", TLV_WRITTEN(b, in.off, (ret), (type))); \
        v_tlv_value_check(b + in.off + 2, (type), b[in.off + 1]); \
        V_POST("C02.writer-frame: nothing outside the property is written", (g_j >= in.off && g_j < in.off + (ret)) || b[g_j] == o[g_j]); \
    } } while (0)

void h_tlv_writers(void) {
    V_INPUT(h_tlv_writers, struct in_tlv, in);
    V_ENV(in.cfg);
    g_ctx = &v_ctx_obj;
    g_k = in.gk; g_j = in.gj;
    V_ASSUME(in.off <= BUF_N - V_TLV_ROOM && in.gj < BUF_N);
    uint8_t b[BUF_N], o[BUF_N];
    for (unsigned i = 0; i < BUF_N; i++) { b[i] = in.buf[i]; o[i] = in.buf[i]; }
    size_t r;
    switch (in.which) {
        case 0:  r = setHostIdTLV(b, in.off, g_ctx);          W_CHECK(r, 0x01, false); break;
        case 1:  r = setCharacteristicsTLV(b, in.off, g_ctx); W_CHECK(r, 0x02, false); break;
        case 2:  r = setPhysicalMediumTLV(b, in.off, g_ctx);  W_CHECK(r, 0x03, false); break;
        case 3:  r = setIPv4TLV(b, in.off, g_ctx);            W_CHECK(r, 0x07, false); break;
        case 4:  r = setIPv6TLV(b, in.off, g_ctx);            W_CHECK(r, 0x08, false); break;
        case 5:  r = setPerfCounterTLV(b, in.off);            W_CHECK(r, 0x0A, false); break;
        case 6:  r = setLinkSpeedTLV(b, in.off, g_ctx);       W_CHECK(r, 0x0C, false); break;
        case 7:  r = setHostnameTLV(b, in.off);               W_CHECK(r, 0x0F, false); break;
        case 8:  r = setWirelessTLV(b, in.off, g_ctx);        W_CHECK(r, 0x04, !g_cfg.wifi); break;
        case 9:  r = setBSSIDTLV(b, in.off, g_ctx);           W_CHECK(r, 0x05, !g_cfg.wifi || g_cfg.bssid_fail); break;
        case 10: V_ASSUME(g_cfg.wifi); r = setSSIDTLV(b, in.off, g_ctx);        W_CHECK(r, 0x06, false); break;
        case 11: V_ASSUME(g_cfg.wifi); r = setWifiMaxRateTLV(b, in.off, g_ctx); W_CHECK(r, 0x09, false); break;
        case 12: V_ASSUME(g_cfg.wifi); r = setWifiRssiTLV(b, in.off, g_ctx);    W_CHECK(r, 0x0D, false); break;
        case 13: r = setQosCharacteristicsTLV(b, in.off);     W_CHECK(r, 0x14, false); break;
        case 14: r = setIconImageTLV(b, in.off);              W_CHECK(r, 0x0E, false); break;
        case 15: r = setFriendlyNameTLV(b, in.off);           W_CHECK(r, 0x11, false); break;
        case 16:
            r = setEndOfPropertyTLV(b, in.off);
            V_POST("C02.end-marker: one zero byte", r == 1 && b[in.off] == 0 && (g_j == in.off || b[g_j] == o[g_j]));
            break;
        case 17:
            r = setAPAssociationTableTLV(b, in.off, g_ctx) + setRepeaterAPLineageTLV(b, in.off, g_ctx) + setRepeaterAPTableTLV(b, in.off, g_ctx);
            V_POST("C02.writer-absent-writes-nothing", r == 0 && b[g_j] == o[g_j]);
            break;
        case 18: r = setSupportInfoTLV(b, in.off);            W_CHECK(r, 0x10, false); break;
        case 19:
            /* not part of any frame the responder sends; with no UUID available it writes an empty property */
            r = setUuidTLV(b, in.off);
            V_POST("C04.uuid-writer: 16 bytes when the platform has a UUID, an empty property otherwise",
                   b[in.off] == 0x12 && r == 2u + b[in.off + 1] && (b[in.off + 1] == 0 || b[in.off + 1] == 16) &&
                   ((g_j >= in.off && g_j < in.off + r) || b[g_j] == o[g_j]));
            break;
        case 20: r = setHardwareIdTLV(b, in.off);             W_CHECK(r, 0x13, g_cfg.hwid_len == 0); break;
        default: r = 0; break;
    }
    (void)r;
    if (in.which == 7) { V_CANARY("hostname"); }
    if (in.which == 12) { V_CANARY("rssi"); }
    V_CANARY("end");
}

/* ---- header writers ---- */
struct in_hdr {
    struct v_cfg cfg;
    uint8_t buf[64];
    ethernet_address_t a1, a2, a3, a4;
    uint16_t seq, gen; uint8_t opcode, tos;
    size_t gj;
};
void h_wire_headers(void) {
    V_INPUT(h_wire_headers, struct in_hdr, in);
    V_ENV(in.cfg);
    g_j = in.gj; V_ASSUME(g_j < 64);
    uint8_t b[64], o[64];
    for (unsigned i = 0; i < 64; i++) { b[i] = in.buf[i]; o[i] = in.buf[i]; }
    size_t r = setLltdHeader(b, &in.a1, &in.a2, in.seq, in.opcode, in.tos);
    V_POST("C02.base-header: Ethernet and real addresses, EtherType 88D9, version 1, ToS, opcode, sequence big-endian",
           r == 32 && v_mac_eq(b, in.a2.a) && v_mac_eq(b + 6, in.a1.a) && b[12] == 0x88 && b[13] == 0xD9 && b[14] == 1 &&
           b[15] == in.tos && b[17] == in.opcode && v_mac_eq(b + 18, in.a2.a) && v_mac_eq(b + 24, in.a1.a) && v_be16(b + 30) == in.seq);
    V_POST("C02.base-header-frame: reserved byte and everything beyond the header untouched", (g_j != 16 && g_j < 32) || b[g_j] == o[g_j]);
    uint8_t b2[64], o2[64];
    for (unsigned i = 0; i < 64; i++) { b2[i] = in.buf[i]; o2[i] = in.buf[i]; }
    r = setLltdHeaderEx(b2, &in.a1, &in.a2, &in.a3, &in.a4, in.seq, in.opcode, in.tos);
    V_POST("C02.base-header-ex", r == 32 && v_mac_eq(b2, in.a2.a) && v_mac_eq(b2 + 6, in.a1.a) && b2[12] == 0x88 && b2[13] == 0xD9 &&
           b2[14] == 1 && b2[15] == in.tos && b2[17] == in.opcode && v_mac_eq(b2 + 18, in.a4.a) && v_mac_eq(b2 + 24, in.a3.a) &&
           v_be16(b2 + 30) == in.seq);
    V_POST("C02.base-header-ex-frame", (g_j != 16 && g_j < 32) || b2[g_j] == o2[g_j]);
    r = setHelloHeader(b2, 32, &in.a1, &in.a2, in.gen);
    V_POST("C03.hello-header: generation big-endian, current mapper, apparent mapper",
           r == 14 && v_be16(b2 + 32) == in.gen && v_mac_eq(b2 + 34, in.a2.a) && v_mac_eq(b2 + 40, in.a1.a));
    V_POST("C03.hello-header-frame", (g_j >= 32 && g_j < 46) || b2[g_j] == ((g_j < 32 && g_j != 16) ? b2[g_j] : o2[g_j]));
    V_POST("C11.compare-addresses", compareEthernetAddress(&in.a1, &in.a2) == v_mac_eq(in.a1.a, in.a2.a));
    V_CANARY("end");
}
