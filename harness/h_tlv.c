/* C04 (writers) / C01 / C02 — the property writers of lltdTlvOps.c and the header writers of lltdWire.c, each against
 * the specification functions of the transmit oracle. */
#include "v_harness.h"
#include "tlv_contracts.h"
#include "lltdTlvOps.c"
#include "lltdWire.c"
#include "v_nocheck_push.h"

static int v_ctx_obj;
#define BUF_N 160

struct in_tlv {
    struct v_cfg cfg;
    uint8_t buf[BUF_N];
    size_t off;
    uint8_t which;
    size_t gk; size_t gj;
};

/* common epilogue: the property at buf+off is well-formed and carries the configured attribute; nothing outside
 * [off, off + ret) was written (ghost byte g_j) */
#define W_CHECK(ret, type, may_be_absent) do { \
    if ((ret) == 0) { \
        V_POST("C04.writer-absent-only-when-unavailable: a property is omitted only when the platform does not provide it", may_be_absent); \
        V_POST("C02.writer-absent-writes-nothing", b[g_j] == o[g_j]); \
    } else { \
        V_POST("C04.writer-wellformed: type, length, size returned", TLV_WRITTEN(b, in.off, (ret), (type))); \
        v_tlv_value_check(b + in.off + 2, (type), b[in.off + 1]); \
        V_POST("C02.writer-frame: nothing outside the property is written", (g_j >= in.off && g_j < in.off + (ret)) || b[g_j] == o[g_j]); \
    } } while (0)

/* the bare call of writer number `which` (used twice: the run that is checked against the specification, and the
 * re-run of the determinism clause) */
static size_t v_call_writer(unsigned which, uint8_t *b, size_t off) {
    switch (which) {
        case 0:  return setHostIdTLV(b, off, g_ctx);
        case 1:  return setCharacteristicsTLV(b, off, g_ctx);
        case 2:  return setPhysicalMediumTLV(b, off, g_ctx);
        case 3:  return setIPv4TLV(b, off, g_ctx);
        case 4:  return setIPv6TLV(b, off, g_ctx);
        case 5:  return setPerfCounterTLV(b, off);
        case 6:  return setLinkSpeedTLV(b, off, g_ctx);
        case 7:  return setHostnameTLV(b, off);
        case 8:  return setWirelessTLV(b, off, g_ctx);
        case 9:  return setBSSIDTLV(b, off, g_ctx);
        case 10: return setSSIDTLV(b, off, g_ctx);
        case 11: return setWifiMaxRateTLV(b, off, g_ctx);
        case 12: return setWifiRssiTLV(b, off, g_ctx);
        case 13: return setQosCharacteristicsTLV(b, off);
        case 14: return setIconImageTLV(b, off);
        case 15: return setFriendlyNameTLV(b, off);
        case 16: return setEndOfPropertyTLV(b, off);
        case 17: return setAPAssociationTableTLV(b, off, g_ctx) + setRepeaterAPLineageTLV(b, off, g_ctx) + setRepeaterAPTableTLV(b, off, g_ctx);
        case 18: return setSupportInfoTLV(b, off);
        case 19: return setUuidTLV(b, off);
        case 20: return setHardwareIdTLV(b, off);
        default: return 0;
    }
}

void h_tlv_writers(void) {
    V_INPUT(h_tlv_writers, struct in_tlv, in);
    V_ENV(in.cfg);
    g_ctx = &v_ctx_obj;
    g_k = in.gk; g_j = in.gj;
    V_ASSUME(in.off <= BUF_N - V_TLV_ROOM && in.gj < BUF_N);
    uint8_t b[BUF_N], o[BUF_N];
    for (unsigned i = 0; i < BUF_N; i++) { b[i] = in.buf[i]; o[i] = in.buf[i]; }
    size_t r;
    struct v_led led0 = g_led;
    switch (in.which) {
        case 0:  r = v_call_writer(0, b, in.off);          W_CHECK(r, 0x01, false); break;
        case 1:  r = v_call_writer(1, b, in.off); W_CHECK(r, 0x02, false); break;
        case 2:  r = v_call_writer(2, b, in.off);  W_CHECK(r, 0x03, false); break;
        case 3:  r = v_call_writer(3, b, in.off);            W_CHECK(r, 0x07, false); break;
        case 4:  r = v_call_writer(4, b, in.off);            W_CHECK(r, 0x08, false); break;
        case 5:  r = v_call_writer(5, b, in.off);            W_CHECK(r, 0x0A, false); break;
        case 6:  r = v_call_writer(6, b, in.off);       W_CHECK(r, 0x0C, false); break;
        case 7:  r = v_call_writer(7, b, in.off);               W_CHECK(r, 0x0F, false); break;
        case 8:  r = v_call_writer(8, b, in.off);        W_CHECK(r, 0x04, !g_cfg.wifi); break;
        case 9:  r = v_call_writer(9, b, in.off);           W_CHECK(r, 0x05, !g_cfg.wifi || g_cfg.bssid_fail); break;
        case 10: V_ASSUME(g_cfg.wifi); r = v_call_writer(10, b, in.off);        W_CHECK(r, 0x06, false); break;
        case 11: V_ASSUME(g_cfg.wifi); r = v_call_writer(11, b, in.off); W_CHECK(r, 0x09, false); break;
        case 12: V_ASSUME(g_cfg.wifi); r = v_call_writer(12, b, in.off);    W_CHECK(r, 0x0D, false); break;
        case 13: r = v_call_writer(13, b, in.off);     W_CHECK(r, 0x14, false); break;
        case 14: r = v_call_writer(14, b, in.off);              W_CHECK(r, 0x0E, false); break;
        case 15: r = v_call_writer(15, b, in.off);           W_CHECK(r, 0x11, false); break;
        case 16:
            r = v_call_writer(16, b, in.off);
            V_POST("C02.end-marker: one zero byte", r == 1 && b[in.off] == 0 && (g_j == in.off || b[g_j] == o[g_j]));
            break;
        case 17:
            r = v_call_writer(17, b, in.off);
            V_POST("C02.writer-absent-writes-nothing", r == 0 && b[g_j] == o[g_j]);
            break;
        case 18: r = v_call_writer(18, b, in.off);            W_CHECK(r, 0x10, false); break;
        case 19:
            /* not part of any frame the responder sends; with no UUID available it writes an empty property */
            r = v_call_writer(19, b, in.off);
            V_POST("C04.uuid-writer: 16 bytes when the platform has a UUID, an empty property otherwise",
                   b[in.off] == 0x12 && r == 2u + b[in.off + 1] && (b[in.off + 1] == 0 || b[in.off + 1] == 16) &&
                   ((g_j >= in.off && g_j < in.off + r) || b[g_j] == o[g_j]));
            break;
        case 20: r = v_call_writer(20, b, in.off);             W_CHECK(r, 0x13, g_cfg.hwid_len == 0); break;
        default: r = 0; break;
    }
    (void)r; (void)led0;
    if (in.which == 7) { V_CANARY("hostname"); }
    if (in.which == 12) { V_CANARY("rssi"); }
    V_CANARY("end");
}

/* C02, determinism clause ("every byte is determined by the frames received and the configuration, never by uninitialised
 * memory"): the same writer run twice from the same configuration and ledger into two copies of the buffer produces the same
 * bytes.  CBMC gives every uninitialised local and every fresh allocation a NEW arbitrary value per run, so a byte taken from
 * either differs between the two runs.  (Kept apart from h_tlv_writers: under DFCC with 18 enforced contracts the doubled run
 * exceeded the memory limit.) */
void h_tlv_determinism(void) {
    V_INPUT(h_tlv_determinism, struct in_tlv, in);
    V_ENV(in.cfg);
    g_ctx = &v_ctx_obj;
    g_k = in.gk; g_j = in.gj;
    V_ASSUME(in.off <= BUF_N - V_TLV_ROOM && in.gj < BUF_N && in.which <= 20);
    if (in.which >= 10 && in.which <= 12) V_ASSUME(g_cfg.wifi);
    uint8_t b[BUF_N], b2[BUF_N];
    for (unsigned i = 0; i < BUF_N; i++) { b[i] = in.buf[i]; b2[i] = in.buf[i]; }
    struct v_led led0 = g_led;
    size_t r = v_call_writer(in.which, b, in.off);
    g_led = led0;
    size_t r2 = v_call_writer(in.which, b2, in.off);
    V_POST("C02.writer-deterministic: same configuration, same bytes - nothing is taken from uninitialised memory", r2 == r && b2[g_j] == b[g_j]);
    if (in.which == 9 && g_cfg.wifi && g_cfg.bssid_fail) { V_CANARY("bssid-unavailable"); }
    V_CANARY("end");
}

/* ---- header writers ---- */
struct in_hdr {
    struct v_cfg cfg;
    uint8_t buf[64];
    ethernet_address_t a1, a2, a3, a4;
    uint16_t seq, gen; uint8_t opcode, tos;
    size_t gj;
};
void h_wire_headers(void) {
    V_INPUT(h_wire_headers, struct in_hdr, in);
    V_ENV(in.cfg);
    g_j = in.gj; V_ASSUME(g_j < 64);
    uint8_t b[64], o[64];
    for (unsigned i = 0; i < 64; i++) { b[i] = in.buf[i]; o[i] = in.buf[i]; }
    size_t r = setLltdHeader(b, &in.a1, &in.a2, in.seq, in.opcode, in.tos);
    V_POST("C02.base-header: Ethernet and real addresses, EtherType 88D9, version 1, ToS, opcode, sequence big-endian",
           r == 32 && v_mac_eq(b, in.a2.a) && v_mac_eq(b + 6, in.a1.a) && b[12] == 0x88 && b[13] == 0xD9 && b[14] == 1 &&
           b[15] == in.tos && b[17] == in.opcode && v_mac_eq(b + 18, in.a2.a) && v_mac_eq(b + 24, in.a1.a) && v_be16(b + 30) == in.seq);
    V_POST("C02.base-header-frame: reserved byte and everything beyond the header untouched", (g_j != 16 && g_j < 32) || b[g_j] == o[g_j]);
    uint8_t b2[64], o2[64];
    for (unsigned i = 0; i < 64; i++) { b2[i] = in.buf[i]; o2[i] = in.buf[i]; }
    r = setLltdHeaderEx(b2, &in.a1, &in.a2, &in.a3, &in.a4, in.seq, in.opcode, in.tos);
    V_POST("C02.base-header-ex", r == 32 && v_mac_eq(b2, in.a2.a) && v_mac_eq(b2 + 6, in.a1.a) && b2[12] == 0x88 && b2[13] == 0xD9 &&
           b2[14] == 1 && b2[15] == in.tos && b2[17] == in.opcode && v_mac_eq(b2 + 18, in.a4.a) && v_mac_eq(b2 + 24, in.a3.a) &&
           v_be16(b2 + 30) == in.seq);
    V_POST("C02.base-header-ex-frame", (g_j != 16 && g_j < 32) || b2[g_j] == o2[g_j]);
    r = setHelloHeader(b2, 32, &in.a1, &in.a2, in.gen);
    V_POST("C03.hello-header: generation big-endian, current mapper, apparent mapper",
           r == 14 && v_be16(b2 + 32) == in.gen && v_mac_eq(b2 + 34, in.a2.a) && v_mac_eq(b2 + 40, in.a1.a));
    V_POST("C03.hello-header-frame", (g_j >= 32 && g_j < 46) || b2[g_j] == ((g_j < 32 && g_j != 16) ? b2[g_j] : o2[g_j]));
    V_POST("C11.compare-addresses", compareEthernetAddress(&in.a1, &in.a2) == v_mac_eq(in.a1.a, in.a2.a));
    V_CANARY("end");
}
