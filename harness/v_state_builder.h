/* v_state_builder.h — builds a per-interface state record of lltdBlock.c from scalar harness inputs.
 * Every node is its own allocation (as in the real list); the ledger is set so that the ledger equation
 * g_led.live == ST_LIVE(st) holds on entry. */
#ifndef V_STATE_BUILDER_H
#define V_STATE_BUILDER_H

#include "v_nocheck_push.h"

#ifdef V_REPLAY
#include <stdlib.h>
#else
void *malloc(size_t);
#endif

struct in_obs { uint8_t kind; ethernet_address_t real, src, dst; };
struct in_state {
    uint8_t n;                               /* observations recorded, <= V_LIST_MAX */
    struct in_obs obs[V_LIST_MAX];
    uint8_t mapper_known;
    ethernet_address_t mapper_real, mapper_apparent;
    uint16_t mapper_seq, gen_topology, gen_quick;
    uint8_t has_icon; uint8_t icon_n;        /* cached icon present, its size (1..V_ICON_CAP) */
};

static inline probe_t *v_build_list(const struct in_state *is) {
    probe_t *head = (probe_t *)0;
    for (int i = V_LIST_MAX - 1; i >= 0; i--) {
        if (i < is->n) {
            probe_t *p = (probe_t *)malloc(sizeof(probe_t));
            V_ASSUME(p != (probe_t *)0);
            uint8_t *t = (uint8_t *)&p->type;
            t[0] = 0; t[1] = is->obs[i].kind & 1;
            p->realSourceAddr = is->obs[i].real; p->sourceAddr = is->obs[i].src; p->destAddr = is->obs[i].dst;
            p->nextProbe = head;
            head = p;
        }
    }
    return head;
}

/* fills *st (caller-provided storage: stack object or heap record) */
static inline void v_build_state(lltd_iface_state *st, const struct in_state *is, void *ctx) {
    V_ASSUME(is->n <= V_LIST_MAX && is->mapper_known <= 1 && is->has_icon <= 1);
    st->iface_ctx = ctx;
    st->next = (lltd_iface_state *)0;
    st->see_list = v_build_list(is);
    st->see_list_count = is->n;
    st->mapper_known = is->mapper_known;
    st->mapper_real = is->mapper_real; st->mapper_apparent = is->mapper_apparent;
    st->mapper_seq = is->mapper_seq; st->mapper_gen_topology = is->gen_topology; st->mapper_gen_quick = is->gen_quick;
    st->small_icon = (void *)0; st->small_icon_size = 0;
    if (is->has_icon) {
        V_ASSUME(is->icon_n >= 1 && is->icon_n <= V_ICON_CAP && is->icon_n == g_cfg.icon_size);
        uint8_t *ic = (uint8_t *)malloc(is->icon_n);
        V_ASSUME(ic != (uint8_t *)0);
        for (unsigned k = 0; k < V_ICON_CAP; k++) { if (k < is->icon_n) ic[k] = g_cfg.icon[k]; }
        st->small_icon = ic; st->small_icon_size = is->icon_n;
    }
    g_led.live = ST_LIVE(st);
}
#include "v_nocheck_pop.h"

#endif
