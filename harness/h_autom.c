/* C14 / C15 / C18 — automata constructors and the step functions of lltdAutomata.c. */
#include "v_harness.h"
#include "automata_contracts.h"
#include "lltdAutomata.c"
#include "v_nocheck_push.h"      /* harness and specification code below: no implicit checks */

struct in_ctor { struct v_cfg cfg; };

void h_ctor_mapping(void) {
    V_INPUT(h_ctor_mapping, struct in_ctor, in);
    V_ENV(in.cfg);
    uint32_t live0 = g_led.live;
    automata *a = init_automata_mapping();
    V_POST("C18.ctor-mapping: NULL or a fully initialised automaton", C18_CTOR_MAPPING(a));
    V_POST("C18.ctor-ledger: nothing leaked by the constructor", C18_CTOR_LEDGER(a, live0));
    V_POST("C18.ctor-reports-failure: first allocation failing yields NULL", !(g_cfg.alloc_fail_mask & 1u) || a == NULL);
    if (a) { V_CANARY("ok"); } else { V_CANARY("null"); }
    V_CANARY("end");
}

void h_ctor_enum(void) {
    V_INPUT(h_ctor_enum, struct in_ctor, in);
    V_ENV(in.cfg);
    uint32_t live0 = g_led.live;
    automata *a = init_automata_enumeration();
    V_POST("C18.ctor-enumeration: NULL or a fully initialised automaton", C18_CTOR_ENUM(a));
    V_POST("C18.ctor-ledger: nothing leaked by the constructor", C18_CTOR_LEDGER(a, live0));
    V_POST("C18.ctor-reports-failure: first allocation failing yields NULL", !(g_cfg.alloc_fail_mask & 1u) || a == NULL);
    if (a) { V_CANARY("ok"); } else { V_CANARY("null"); }
    V_CANARY("end");
}

void h_ctor_session(void) {
    V_INPUT(h_ctor_session, struct in_ctor, in);
    V_ENV(in.cfg);
    uint32_t live0 = g_led.live;
    automata *a = init_automata_session();
    V_POST("C18.ctor-session: NULL or a fully initialised automaton", C18_CTOR_SESSION(a));
    V_POST("C18.ctor-ledger: nothing leaked by the constructor", C18_CTOR_LEDGER(a, live0));
    V_POST("C18.ctor-reports-failure: first allocation failing yields NULL", !(g_cfg.alloc_fail_mask & 1u) || a == NULL);
    if (a) { V_CANARY("ok"); } else { V_CANARY("null"); }
    V_CANARY("end");
}

/* ---- step lemmas: real constructor, then an arbitrary reachable (state, last_ts), then one real step.
 * Sound for histories because the step function is proved (frame condition) to assign only
 * current_state and last_ts, so {constructor result with arbitrary (state, last_ts <= now)} is closed. */
struct in_step { struct v_cfg cfg; uint8_t state; uint64_t last_ts; int input; };

void h_map_step(void) {
    V_INPUT(h_map_step, struct in_step, in);
    V_ENV(in.cfg);
    V_ASSUME((g_cfg.alloc_fail_mask & 3u) == 0);          /* constructor succeeds (failure: C18) */
    automata *a = init_automata_mapping();
    V_ASSUME(a != NULL);
    V_POST("C14.timeouts: idle has no timeout, active states a non-zero timeout of at most 30 s",
           a->states_table[0].timeout == 0 && a->states_table[1].timeout >= 1 && a->states_table[1].timeout <= 30 &&
           a->states_table[2].timeout >= 1 && a->states_table[2].timeout <= 30);
    V_POST("C14.initial-idle: the engine starts idle", a->current_state == 0);
    V_ASSUME(in.state <= 2 && in.last_ts <= v_now_s());
    V_ASSUME(in.input >= -128 && in.input <= 255);
    a->current_state = in.state;
    a->last_ts = in.last_ts;
    V_POST("C14.init-establishes-pre: constructor result satisfies the step precondition", PRE_switch(a));
    uint64_t elapsed = v_now_s() - in.last_ts;
    short tmo = a->states_table[in.state].timeout;
    automata *r = switch_state_mapping(a, in.input, (char *)0);
    V_POST("C14.step: successor state as the mapping state machine prescribes",
           v_mapping_step_ok(in.state, in.input, elapsed, tmo, a->current_state));
    V_POST("C14.last-ts: time of last input recorded", r == a && a->last_ts == v_now_s());
    V_CANARY("end");
}

void h_sess_step(void) {
    V_INPUT(h_sess_step, struct in_step, in);
    V_ENV(in.cfg);
    V_ASSUME((g_cfg.alloc_fail_mask & 3u) == 0);
    automata *a = init_automata_session();
    V_ASSUME(a != NULL);
    V_POST("C15.initial-nascent: a session starts Nascent", a->current_state == 1);
    V_POST("C15.timeouts: every state has a non-zero inactivity timeout",
           a->states_table[0].timeout > 0 && a->states_table[1].timeout > 0 && a->states_table[2].timeout > 0 &&
           a->states_table[3].timeout > 0);
    V_ASSUME(in.state <= 3 && in.last_ts <= v_now_s());
    V_ASSUME(in.input >= 0 && in.input <= 7);              /* the session-event alphabet */
    a->current_state = in.state;
    a->last_ts = in.last_ts;
    V_POST("C15.init-establishes-pre: constructor result satisfies the step precondition", PRE_switch(a));
    uint64_t elapsed = v_now_s() - in.last_ts;
    short tmo = a->states_table[in.state].timeout;
    automata *r = switch_state_session(a, in.input, (char *)0);
    V_POST("C15.step: successor state as the session life-cycle prescribes",
           v_session_step_ok(in.state, in.input, elapsed, tmo, a->current_state));
    V_POST("C15.last-ts: time of last input recorded", r == a && a->last_ts == v_now_s());
    V_CANARY("end");
}

/* enumeration automaton: shape/closure only (its use is proved in automata_tick, C12) */
void h_enum_step(void) {
    V_INPUT(h_enum_step, struct in_step, in);
    V_ENV(in.cfg);
    V_ASSUME((g_cfg.alloc_fail_mask & 3u) == 0);
    automata *a = init_automata_enumeration();
    V_ASSUME(a != NULL);
    V_ASSUME(in.state <= 2);
    a->current_state = in.state;
    a->last_ts = in.last_ts;
    V_POST("C12.enum-init-establishes-pre", PRE_switch(a));
    uint8_t s0 = in.state;
    automata *r = switch_state_enumeration(a, in.input, (char *)0);
    V_POST("C12.enum-step-closed", r == a && a->current_state <= 2);
    /* the gate automata_tick relies on: Pausing + 'session complete' leaves Pausing; 'not complete' keeps/enters Pausing */
    V_POST("C12.enum-gate", !(in.input == enum_sess_not_complete) || a->current_state == 1);
    V_POST("C12.enum-complete-leaves-pausing", !(in.input == enum_sess_complete && s0 == 1) || a->current_state == 2);
    V_POST("C12.enum-hello-keeps", !(in.input == enum_hello) || a->current_state == s0);
    V_CANARY("end");
}
