/* C01 (embedded entry point) — lltd_esp32_handle_frame of os/esp32/daemon/lltd_esp32.c: for ANY told length and a
 * buffer of exactly that many bytes, nothing is read past the length; the three step functions are replaced by their
 * contracts (whose preconditions - closed automata - are obligations at the call sites). */
#include "v_harness.h"
#include "automata_contracts.h"
#include "lltdAutomata.c"
#include "os/esp32/daemon/lltd_esp32.c"
#include "v_nocheck_push.h"

#ifndef ESP_N
#define ESP_N 40            /* capacity of the symbolic receive buffer; the told length is any value 0..ESP_N */
#endif
struct in_esp { struct v_cfg cfg; uint8_t bytes[ESP_N]; size_t length; uint8_t null_ctx, null_frame; uint8_t s1, s2, s3; };

void h_esp32_frame(void) {
    V_INPUT(h_esp32_frame, struct in_esp, in);
    V_ENV(in.cfg);
    V_ASSUME(in.length <= ESP_N);
    lltd_esp32_ctx_t ctx;
    V_ZERO(ctx);
    lltd_esp32_init(&ctx);
    /* every allocation of the three constructors may fail (C18): the glue has to cope with a missing automaton */
    /* arbitrary reachable automaton states */
    V_ASSUME(in.s1 <= 2 && in.s2 <= 3 && in.s3 <= 2);
    if (ctx.mapping != NULL) ctx.mapping->current_state = in.s1;
    if (ctx.session != NULL) ctx.session->current_state = in.s2;
    if (ctx.enumeration != NULL) ctx.enumeration->current_state = in.s3;
    /* a buffer of exactly the told length */
    uint8_t *buf = (uint8_t *)malloc(in.length ? in.length : 1);
    V_ASSUME(buf != (uint8_t *)0);
    for (size_t i = 0; i < ESP_N; i++) { if (i < in.length) buf[i] = in.bytes[i]; }
    lltd_esp32_handle_frame(in.null_ctx ? (lltd_esp32_ctx_t *)0 : &ctx, in.null_frame ? (const void *)0 : (const void *)buf, in.length);
    V_POST("C01.esp32-states-closed: the automata stay inside their state sets",
           (ctx.mapping == NULL || ctx.mapping->current_state <= 2) && (ctx.session == NULL || ctx.session->current_state <= 3) &&
           (ctx.enumeration == NULL || ctx.enumeration->current_state <= 2));
    if (ctx.mapping == NULL || ctx.session == NULL || ctx.enumeration == NULL) { V_CANARY("degraded"); }
    if (in.length >= 32 && ctx.mapping != NULL && ctx.session != NULL && ctx.enumeration != NULL) { V_CANARY("handled"); }
    if (in.length < 32) { V_CANARY("short"); }
    V_CANARY("end");
}
