/* C02 / C03 / C04 — answerHello of lltdBlock.c with the real writers inlined; the transmit oracle decodes the whole Hello. */
#include "v_harness.h"
#include "tlv_contracts.h"

/* The call sites of the property writers inside answerHello are redirected (preprocessor rename, nothing else of
 * lltdBlock.c changes) to ghost-recording wrappers defined below.  A wrapper calls the REAL writer and then
 *   - checks, right where it was written, that the property is well-formed and carries the configured attribute
 *     (the same specification functions as the writers' own contracts),
 *   - checks that properties are laid out back to back and that no type is written twice,
 *   - records the chain in g_hc, which the transmit oracle compares with the frame length and the required set.
 * (A decoder that re-reads the whole frame in the oracle exceeded time and memory limits in every formulation.) */
#define WLIST3(X) X(setHostIdTLV, 0x01, ABS_NEVER) X(setCharacteristicsTLV, 0x02, ABS_NEVER) X(setPhysicalMediumTLV, 0x03, ABS_NEVER) \
    X(setIPv4TLV, 0x07, ABS_NEVER) X(setIPv6TLV, 0x08, ABS_NEVER) X(setLinkSpeedTLV, 0x0C, ABS_NEVER) X(setWirelessTLV, 0x04, ABS_NOWIFI) \
    X(setBSSIDTLV, 0x05, ABS_NOBSSID) X(setSSIDTLV, 0x06, ABS_NEVER) X(setWifiMaxRateTLV, 0x09, ABS_NEVER) X(setWifiRssiTLV, 0x0D, ABS_NEVER)
#define WLIST2(X) X(setPerfCounterTLV, 0x0A, ABS_NEVER) X(setHostnameTLV, 0x0F, ABS_NEVER) X(setQosCharacteristicsTLV, 0x14, ABS_NEVER) \
    X(setIconImageTLV, 0x0E, ABS_NEVER) X(setFriendlyNameTLV, 0x11, ABS_NEVER)
#define WDECL3(name, type, abs) static size_t v_w_##name(void *b, size_t off, void *ctx);
#define WDECL2(name, type, abs) static size_t v_w_##name(void *b, size_t off);
WLIST3(WDECL3)
WLIST2(WDECL2)
static size_t v_w_setEndOfPropertyTLV(void *b, size_t off);

#define setHostIdTLV v_w_setHostIdTLV
#define setCharacteristicsTLV v_w_setCharacteristicsTLV
#define setPhysicalMediumTLV v_w_setPhysicalMediumTLV
#define setIPv4TLV v_w_setIPv4TLV
#define setIPv6TLV v_w_setIPv6TLV
#define setLinkSpeedTLV v_w_setLinkSpeedTLV
#define setWirelessTLV v_w_setWirelessTLV
#define setBSSIDTLV v_w_setBSSIDTLV
#define setSSIDTLV v_w_setSSIDTLV
#define setWifiMaxRateTLV v_w_setWifiMaxRateTLV
#define setWifiRssiTLV v_w_setWifiRssiTLV
#define setPerfCounterTLV v_w_setPerfCounterTLV
#define setHostnameTLV v_w_setHostnameTLV
#define setQosCharacteristicsTLV v_w_setQosCharacteristicsTLV
#define setIconImageTLV v_w_setIconImageTLV
#define setFriendlyNameTLV v_w_setFriendlyNameTLV
#define setEndOfPropertyTLV v_w_setEndOfPropertyTLV
#include "lltdBlock.c"
#undef setHostIdTLV
#undef setCharacteristicsTLV
#undef setPhysicalMediumTLV
#undef setIPv4TLV
#undef setIPv6TLV
#undef setLinkSpeedTLV
#undef setWirelessTLV
#undef setBSSIDTLV
#undef setSSIDTLV
#undef setWifiMaxRateTLV
#undef setWifiRssiTLV
#undef setPerfCounterTLV
#undef setHostnameTLV
#undef setQosCharacteristicsTLV
#undef setIconImageTLV
#undef setFriendlyNameTLV
#undef setEndOfPropertyTLV
#include "lltdWire.c"
#include "lltdTlvOps.c"
#include "v_nocheck_push.h"
#include "v_state_builder.h"

/* the value of each property is proved per writer for all attribute values (harness tlv_writers, same specification
 * function); re-checking it on the assembled frame is optional (V_HELLO_VALUES) - with it a wireless Hello needs 47 GB */
#ifdef V_HELLO_VALUES
#define V_HELLO_VALUE_CHECK(b, off, type) v_tlv_value_check((const uint8_t *)(b) + (off) + 2, (type), ((const uint8_t *)(b))[(off) + 1])
#else
#define V_HELLO_VALUE_CHECK(b, off, type) do { } while (0)
#endif
#ifdef V_HELLO_GATE
/* GATE instance (decides the wireless direction of "wireless properties iff Wi-Fi" and the required set for ALL attribute
 * tuples at once, symbolic name lengths included): the writers are abstracted by what their own contracts say about presence
 * and length (proved in tlv_writers: absent iff the platform does not provide the attribute, legal length otherwise) and only
 * the property header is written; everything else - which writers answerHello calls under which conditions, in which order,
 * at which offsets, the end marker, the frame length, the transmit - is the real answerHello. */
#define V_GATE_CALL(b, off, type, abs) ({ size_t r_ = 0; if (!(abs)) { uint8_t l_; V_ASSUME(v_tlv_len_legal((type), l_)); \
        ((uint8_t *)(b))[(off)] = (type); ((uint8_t *)(b))[(off) + 1] = l_; r_ = 2u + l_; } r_; })
#define WDEF3(name, type, abs) static size_t v_w_##name(void *b, size_t off, void *ctx) { (void)ctx; WBODY(V_GATE_CALL(b, off, type, abs), type, abs) }
#define WDEF2(name, type, abs) static size_t v_w_##name(void *b, size_t off) { WBODY(V_GATE_CALL(b, off, type, abs), type, abs) }
#else
#define WDEF3(name, type, abs) static size_t v_w_##name(void *b, size_t off, void *ctx) { WBODY(name(b, off, ctx), type, abs) }
#define WDEF2(name, type, abs) static size_t v_w_##name(void *b, size_t off) { WBODY(name(b, off), type, abs) }
#endif
#define WBODY(call, type, abs) \
    V_REQUIRE("C02.hello.contiguous: properties are laid out back to back", off == g_hc.end && !g_hc.ended); \
    V_REQUIRE("C02.hello.no-type-twice", (g_hc.seen & V_BIT(type)) == 0); \
    size_t r = call; \
    if (r == 0) { \
        V_REQUIRE("C04.writer-absent-only-when-unavailable: a property is omitted only when the platform does not provide it", abs); \
    } else { \
        V_REQUIRE("C02.hello.legal-length: well-formed property of legal length", TLV_WRITTEN(b, off, r, type)); \
        V_HELLO_VALUE_CHECK(b, off, type); \
        if (g_hc.count == 0) g_hc.first = (type); \
        g_hc.count++; g_hc.seen |= V_BIT(type); g_hc.end = off + r; \
    } \
    return r;
WLIST3(WDEF3)
WLIST2(WDEF2)
static size_t v_w_setEndOfPropertyTLV(void *b, size_t off) {
    V_REQUIRE("C02.hello.end-marker-last: the end marker follows the last property", off == g_hc.end && !g_hc.ended);
    size_t r = setEndOfPropertyTLV(b, off);
    V_REQUIRE("C02.hello.end-marker: one zero byte", r == 1 && ((const uint8_t *)b)[off] == 0);
    g_hc.end = off + 1; g_hc.ended = 1;
    return r;
}

static int v_ctx_obj;
#define V_RX_N 36              /* answerHello reads the base header and the Discover upper header only (its contract requires 36 readable bytes) */

struct in_hello {
    struct v_cfg cfg;
    uint8_t frame[V_RX_N];
    struct in_state is;
    uint32_t allocs0, tx0;
    size_t gk;
};

void h_answer_hello(void) {
    V_INPUT(h_answer_hello, struct in_hello, in);
    V_ENV(in.cfg);
#ifdef V_WIFI
    g_cfg.wifi = V_WIFI;       /* wired and wireless instances are separate runs */
#endif
    /* name lengths are enumerated (one run per value, constants by assignment): with symbolic lengths every offset
     * behind the machine name is symbolic and the whole-frame decoder exceeded time and memory limits */
#ifdef V_HOSTLEN
    g_cfg.hostname_len = V_HOSTLEN;
#endif
#ifdef V_SSIDLEN
    g_cfg.ssid_len = V_SSIDLEN;
#endif
#ifdef V_BSSIDFAIL
    g_cfg.bssid_fail = V_BSSIDFAIL;   /* whether the BSSID property is present decides every later offset: enumerated too */
#endif
    g_ctx = &v_ctx_obj;
    g_k = in.gk;
    lltd_iface_state st; V_ZERO(st);
    v_build_state(&st, &in.is, g_ctx);
    V_ASSUME(ST_SHAPE(&st));
    V_EXACT_OBJECT(f, in.frame, V_RX_N);
    V_ASSUME(f[15] == 0 || f[15] == 1);                       /* a Discover of a discovery service (parseFrame's dispatch) */
    V_ASSUME(PRE_answerHello(&st, f));                        /* established by parseFrame's pre-step, proved at its call site */
    V_ASSUME(in.allocs0 < 1000 && in.tx0 < 1000);
    g_led.allocs = in.allocs0; g_led.tx_attempts = in.tx0; g_req.tx_base = in.tx0;
    g_req.kind = V_K_HELLO; g_req.tos = f[15]; g_req.generation = v_be16(f + 32);
    for (int b = 0; b < 6; b++) { g_req.real_src.a[b] = f[24 + b]; g_req.eth_src.a[b] = f[6 + b]; }
    g_hc.end = V_HELLO_TLV_OFF; g_hc.seen = 0; g_hc.first = 0; g_hc.count = 0; g_hc.ended = 0;
    uint32_t live0 = g_led.live, h0 = g_led.tx_op[1];
    lltd_iface_state o = st;

    answerHello(f, &st, g_ctx);

    V_POST("C03.exactly-one-hello: exactly one Hello (memory permitting), buffer released", C03_HELLO_LEDGER(in.tx0, h0, live0, in.allocs0));
    V_POST("C03.hello-state", C03_HELLO_STATE(&st, f, o.mapper_real, o.mapper_apparent, o.mapper_gen_topology, o.mapper_gen_quick));
    V_POST("C03.hello-seq", st.mapper_seq == (V_ALLOC_OK(in.allocs0, 0) ? v_be16(f + 30) : o.mapper_seq));
    V_POST("C19.hello-wf", ST_SHAPE(&st) && st.see_list == o.see_list && st.small_icon == o.small_icon);
#ifdef V_HELLO_GATE
    if (g_cfg.wifi && g_led.tx_attempts > in.tx0) { V_CANARY("wireless"); }
    if (!g_cfg.wifi && g_led.tx_attempts > in.tx0) { V_CANARY("wired"); }
#endif
    V_CANARY("end");
}
