/* C02 / C03 / C04 — answerHello of lltdBlock.c with the real writers inlined; the transmit oracle decodes the whole Hello. */
#include "v_harness.h"
#include "tlv_contracts.h"
#include "lltdBlock.c"
#include "lltdWire.c"
#include "lltdTlvOps.c"
#include "v_nocheck_push.h"
#include "v_state_builder.h"

static int v_ctx_obj;
#define V_RX_N 64              /* answerHello reads the base header and the Discover upper header only */

struct in_hello {
    struct v_cfg cfg;
    uint8_t frame[V_RX_N];
    struct in_state is;
    uint32_t allocs0, tx0;
    size_t gk;
};

void h_answer_hello(void) {
    V_INPUT(h_answer_hello, struct in_hello, in);
    V_ENV(in.cfg);
#ifdef V_WIFI
    g_cfg.wifi = V_WIFI;       /* wired and wireless instances are separate runs */
#endif
    /* name lengths are enumerated (one run per value, constants by assignment): with symbolic lengths every offset
     * behind the machine name is symbolic and the whole-frame decoder exceeded time and memory limits */
#ifdef V_HOSTLEN
    g_cfg.hostname_len = V_HOSTLEN;
#endif
#ifdef V_SSIDLEN
    g_cfg.ssid_len = V_SSIDLEN;
#endif
    g_ctx = &v_ctx_obj;
    g_k = in.gk;
    lltd_iface_state st; V_ZERO(st);
    v_build_state(&st, &in.is, g_ctx);
    V_ASSUME(ST_SHAPE(&st));
    uint8_t *f = in.frame;
    V_ASSUME(f[15] == 0 || f[15] == 1);                       /* a Discover of a discovery service (parseFrame's dispatch) */
    V_ASSUME(PRE_answerHello(&st, f));                        /* established by parseFrame's pre-step, proved at its call site */
    V_ASSUME(in.allocs0 < 1000 && in.tx0 < 1000);
    g_led.allocs = in.allocs0; g_led.tx_attempts = in.tx0; g_req.tx_base = in.tx0;
    g_req.kind = V_K_HELLO; g_req.tos = f[15]; g_req.generation = v_be16(f + 32);
    for (int b = 0; b < 6; b++) { g_req.real_src.a[b] = f[24 + b]; g_req.eth_src.a[b] = f[6 + b]; }
    g_hc.end = V_HELLO_TLV_OFF; g_hc.seen = 0; g_hc.first = 0; g_hc.count = 0; g_hc.ended = 0;
    uint32_t live0 = g_led.live, h0 = g_led.tx_op[1];
    lltd_iface_state o = st;

    answerHello(f, &st, g_ctx);

    V_POST("C03.exactly-one-hello: exactly one Hello (memory permitting), buffer released", C03_HELLO_LEDGER(in.tx0, h0, live0, in.allocs0));
    V_POST("C03.hello-state", C03_HELLO_STATE(&st, f, o.mapper_real, o.mapper_apparent, o.mapper_gen_topology, o.mapper_gen_quick));
    V_POST("C03.hello-seq", st.mapper_seq == v_be16(f + 30));
    V_POST("C19.hello-wf", ST_SHAPE(&st) && st.see_list == o.see_list && st.small_icon == o.small_icon);
    V_CANARY("end");
}
