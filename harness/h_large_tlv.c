/* C08 — sendLargeTlvResponse and parseQueryLargeTlv of lltdBlock.c, plus the reassembly lemma. */
#include "v_harness.h"
#include "lltdBlock.c"
#include "lltdWire.c"
#include "lltdTlvOps.c"
#include "v_nocheck_push.h"
#include "v_state_builder.h"

static int v_ctx_obj;
#ifndef V_MTU_FIXED
#define V_MTU_FIXED 576
#endif
#ifndef V_DCAP
#define V_DCAP 2048
#endif

struct in_ltr {
    struct v_cfg cfg;
    uint8_t frame[V_MTU_FIXED];
    uint8_t data[V_DCAP];
    size_t size; uint16_t off; uint8_t null_data;
    uint32_t allocs0, tx0;
    size_t gk;
};

void h_send_ltr(void) {
    V_INPUT(h_send_ltr, struct in_ltr, in);
    V_ENV(in.cfg);
#ifdef V_SYM_MTU
    /* symbolic MTU over the property's whole range [576, 9216]: receive buffer and transmit buffer are objects of exactly MTU
     * bytes (the long copy goes through the port's ghost-byte model, so no loop depends on the size) */
    V_ASSUME(!g_cfg.mtu_fail); g_cfg.mtu_fail = 0;
#define V_LTR_MTU (g_cfg.mtu)
#else
    V_ASSUME(g_cfg.mtu == V_MTU_FIXED && !g_cfg.mtu_fail);
    g_cfg.mtu = V_MTU_FIXED; g_cfg.mtu_fail = 0;   /* assignments: let symex propagate the constants */
#define V_LTR_MTU ((size_t)V_MTU_FIXED)
#endif
    g_ctx = &v_ctx_obj;
    g_k = in.gk;
    V_ASSUME(in.size <= V_DCAP);
    lltd_iface_state st; V_ZERO(st);
    struct in_state is0; V_ZERO(is0);
#ifndef V_REPLAY
    is0.n = 0; is0.mapper_known = 1; is0.has_icon = 0;
#else
    is0.mapper_known = 1;
#endif
    v_build_state(&st, &is0, g_ctx);
#ifdef V_SYM_MTU
    uint8_t *f = (uint8_t *)malloc(g_cfg.mtu); V_ASSUME(f != (uint8_t *)0);   /* exactly MTU bytes, arbitrary contents */
#else
    V_EXACT_OBJECT(f, in.frame, V_MTU_FIXED);
#endif
    st.mapper_seq = v_be16(f + 30);                /* established by the caller (parseQueryLargeTlv) */
    V_ASSUME(in.allocs0 < 1000 && in.tx0 < 1000);
    g_led.allocs = in.allocs0; g_led.tx_attempts = in.tx0; g_req.tx_base = in.tx0;
    /* the property's bytes: an object of exactly dataSize bytes (contents of a fresh allocation are arbitrary in the
     * verifier; natively they are copied from the input record) */
    uint8_t *data_obj = (uint8_t *)malloc(in.size ? in.size : 1);
    V_ASSUME(data_obj != (uint8_t *)0);
#ifdef V_REPLAY
    memcpy(data_obj, in.data, in.size);
#endif
    const uint8_t *data = in.null_data ? (const uint8_t *)0 : data_obj;
    g_req.kind = V_K_QLTV; g_req.seq = v_be16(f + 30);
    for (int b = 0; b < 6; b++) { g_req.real_src.a[b] = f[24 + b]; g_req.eth_src.a[b] = f[6 + b]; }
    g_req.lt_data = (in.size == 0) ? (const uint8_t *)0 : data; g_req.lt_size = in.size; g_req.lt_off = in.off; g_req.lt_fault = 0;
    uint32_t live0 = g_led.live;

    sendLargeTlvResponse(&st, g_ctx, f, data, in.size, in.off);

    V_POST("C08.one-response: exactly one response (memory permitting), buffer released", C08_LTR_LEDGER(live0, in.allocs0, in.tx0));
    if (in.size > (size_t)in.off + (V_LTR_MTU - 34)) { V_CANARY("more"); }
    if (in.size > in.off && in.size <= (size_t)in.off + (V_LTR_MTU - 34)) { V_CANARY("final"); }
    if (in.size <= in.off) { V_CANARY("beyond"); }
    V_CANARY("end");
}

/* ---- parseQueryLargeTlv: type dispatch, icon cache, ownership of fetched data ---- */
struct in_qlt {
    struct v_cfg cfg;
    uint8_t frame[V_MTU_FIXED];
    struct in_state is;
    uint32_t allocs0, tx0;
    size_t gk;
};

/* size the hardware-id answer must have: up to the first UCS-2 NUL of the 64-byte, zero-padded identifier */
static inline size_t v_hwid_size(void) {
    size_t n = g_cfg.hwid_len > 64 ? 64 : g_cfg.hwid_len;
    for (size_t i = 0; i + 1 < 64; i += 2) {
        uint8_t a = i < n ? g_cfg.hwid[i] : 0, b = (i + 1) < n ? g_cfg.hwid[i + 1] : 0;
        if (a == 0 && b == 0) return i;
    }
    return 64;
}

void h_parse_qlt(void) {
    V_INPUT(h_parse_qlt, struct in_qlt, in);
    V_ENV(in.cfg);
    V_ASSUME(g_cfg.mtu == V_MTU_FIXED && !g_cfg.mtu_fail);
    g_cfg.mtu = V_MTU_FIXED; g_cfg.mtu_fail = 0;
    g_ctx = &v_ctx_obj;
    g_k = in.gk;
    lltd_iface_state st; V_ZERO(st);
    v_build_state(&st, &in.is, g_ctx);
#ifdef V_ICON_BIG
    /* big-icon instance: the cached icon, when there is one, has the platform's (big) size; contents arbitrary */
    if (st.small_icon != NULL) {
        V_ASSUME(g_cfg.icon_big >= 1);
        st.small_icon = malloc(g_cfg.icon_big); V_ASSUME(st.small_icon != NULL);
        st.small_icon_size = g_cfg.icon_big;
    }
#define V_ICON_SIZE_NOW ((size_t)g_cfg.icon_big)
#else
#define V_ICON_SIZE_NOW (g_cfg.icon_size)
#endif
    V_ASSUME(ST_SHAPE(&st));
    V_ASSUME(in.allocs0 < 1000 && in.tx0 < 1000);
    g_led.allocs = in.allocs0; g_led.tx_attempts = in.tx0; g_req.tx_base = in.tx0;
    V_EXACT_OBJECT(f, in.frame, V_MTU_FIXED);
    uint8_t type = f[32];
    uint16_t off = v_be16(f + 34);
    g_req.kind = V_K_QLTV; g_req.seq = v_be16(f + 30);
    for (int b = 0; b < 6; b++) { g_req.real_src.a[b] = f[24 + b]; g_req.eth_src.a[b] = f[6 + b]; }
    g_req.lt_off = off;
    /* what the platform provides for the requested property */
    static uint8_t hw[64];
    if (type == 0x0E) {
        bool cached = st.small_icon != NULL;
        g_req.lt_data = g_cfg.icon; g_req.lt_size = V_ICON_SIZE_NOW;
        g_req.lt_fault = !cached && (g_cfg.icon_fail || !V_ALLOC_OK(in.allocs0, 0) || V_ICON_SIZE_NOW == 0);
        if (!cached && g_cfg.icon_fail) { g_req.lt_data = (const uint8_t *)0; g_req.lt_size = 0; }
    } else if (type == 0x11) {
        g_req.lt_data = g_cfg.fname; g_req.lt_size = g_cfg.fname_size;
        g_req.lt_fault = g_cfg.fname_fail || !V_ALLOC_OK(in.allocs0, 0) || g_cfg.fname_size == 0;
    } else if (type == 0x13) {
        for (size_t i = 0; i < 64; i++) hw[i] = (i < g_cfg.hwid_len) ? g_cfg.hwid[i] : 0;
        g_req.lt_data = hw; g_req.lt_size = v_hwid_size();
        g_req.lt_fault = !V_ALLOC_OK(in.allocs0, 0);
    } else {
        g_req.lt_data = (const uint8_t *)0; g_req.lt_size = 0; g_req.lt_fault = 0;     /* unknown property: empty payload */
    }
    uint32_t live0 = g_led.live;
    lltd_iface_state o = st;

    parseQueryLargeTlv(f, &st, g_ctx);

    V_POST("C08.seq-zero-ignored: a request with sequence number zero is not answered", C08_SEQ0(&st, f, o.mapper_seq, o.mapper_known, in.allocs0, in.tx0, live0));
    V_POST("C08.qlt-state", C08_QLT_STATE(&st, f, o.mapper_known, o.mapper_real, o.mapper_apparent));
    V_POST("C08.qlt-ledger: at most one response; only a newly cached icon is retained", C08_QLT_LEDGER(&st, in.tx0, live0, o.small_icon));
    V_POST("C08.qlt-wf", ST_SHAPE(&st));
    V_POST("C19.qlt-ledger: live memory = record + observations + cached icon", g_led.live == ST_LIVE(&st));
#ifdef V_ICON_BIG
    V_POST("C08.icon-cache-size: a cached icon has the platform's size (contents: small-icon instance)",
           st.small_icon == NULL || st.small_icon_size == V_ICON_SIZE_NOW);
    if (v_be16(f + 30) != 0 && type == 0x0E && g_cfg.icon_big > 16384 && !g_cfg.icon_fail && o.small_icon == NULL && V_ALLOC_OK(in.allocs0, 0)) {
        V_POST("C08.icon-cached-once: a fetched icon of any size is kept until Reset", st.small_icon != NULL);
        V_CANARY("bigicon");
    }
#else
    V_POST("C08.icon-cache-faithful: a cached icon holds the platform's bytes",
           st.small_icon == NULL || (st.small_icon_size == g_cfg.icon_size &&
                                     (g_k >= st.small_icon_size || ((const uint8_t *)st.small_icon)[g_k] == g_cfg.icon[g_k])));
#endif
    if (v_be16(f + 30) != 0 && type == 0x0E) { V_CANARY("icon"); }
    if (v_be16(f + 30) != 0 && type == 0x11) { V_CANARY("fname"); }
    if (v_be16(f + 30) != 0 && type == 0x13) { V_CANARY("hwid"); }
    if (v_be16(f + 30) != 0 && type == 0x77) { V_CANARY("unknown"); }
    if (v_be16(f + 30) == 0) { V_CANARY("seq0"); }
    V_CANARY("end");
}

/* ---- reassembly lemma over the per-request relation the oracle enforces (spec level, no code):
 * a mapper that starts at offset 0 and advances by the returned length while 'more' is set visits every byte of
 * [0, size) exactly once and terminates.  Inductive step for an arbitrary reachable offset. ---- */
struct in_reasm { size_t size, off, mtu; };
void h_c08_reassembly(void) {
    V_INPUT(h_c08_reassembly, struct in_reasm, in);
    V_ASSUME(in.mtu >= V_MTU_MIN && in.mtu <= V_MTU_MAX);
    size_t P = in.mtu - 34;
    V_ASSUME(in.size <= 65535u + P && in.off <= 65535u && in.off <= in.size);
    size_t len = v_lt_len(in.size, in.off, P);
    bool more = v_lt_more(in.size, in.off, P);
    V_POST("C08.lemma.progress: a chunk is non-empty while bytes remain", in.off == in.size || len > 0);
    V_POST("C08.lemma.no-overrun: a chunk never reaches past the end", in.off + len <= in.size);
    V_POST("C08.lemma.more-iff-remaining: 'more' iff bytes remain beyond this chunk", more == (in.off + len < in.size));
    V_POST("C08.lemma.last-chunk-completes: without 'more' the chunk ends exactly at the end", more || in.off + len == in.size);
    V_POST("C08.lemma.fits: a chunk fits into the MTU", 34 + len <= in.mtu);
    V_POST("C08.lemma.next-offset-representable: the next offset fits the 16-bit field while 'more' is set", !more || in.off + len <= 65535u + P);
    V_POST("C08.lemma.beyond-end-empty: an offset at or past the end yields an empty payload", in.off < in.size || (len == 0 && !more));
    V_CANARY("end");
}
