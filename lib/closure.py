"""C20 / C17 closure checks: the core reaches its environment only through the port API; the core has no mutable
object of static storage duration other than the per-interface list head."""
import os, re, json, subprocess, shutil, time

REPO = os.environ.get("VERIF_REPO", "/repo")
CORE = ["lltdBlock.c", "lltdAutomata.c", "lltdTlvOps.c", "lltdWire.c"]
COMPILER_RUNTIME = {"memcpy", "memset", "memmove", "memcmp"}
CPROVER_BUILTINS = re.compile(r"^__CPROVER_")


def sh(cmd, cwd=None, timeout=300):
    p = subprocess.run(cmd, cwd=cwd, capture_output=True, text=True, timeout=timeout)
    return p.returncode, p.stdout, p.stderr


def port_api():
    txt = open(os.path.join(REPO, "lltdResponder", "lltdPort.h")).read()
    txt = re.sub(r"/\*.*?\*/", "", txt, flags=re.S)
    return set(re.findall(r"\b(lltd_port_\w+)\s*\(", txt))


def core_closure(tier, workroot):
    """C20"""
    wd = os.path.join(workroot, "closure")
    os.makedirs(wd, exist_ok=True)
    api = port_api()
    res = {"obligations": 0, "discharged": 0, "undecided": [], "violations": [], "samples": [], "bounded": []}
    srcs = [os.path.join(REPO, "lltdResponder", f) for f in CORE]

    def ob(name, ok, text, sample=True):
        res["obligations"] += 1
        if ok:
            res["discharged"] += 1
        else:
            res["violations"].append({"name": name, "tag": name, "desc": text, "text": text, "kind": "closure", "has_input": False})
        if sample and len(res["samples"]) < 8:
            res["samples"].append({"obligation": name, "status": "SUCCESS" if ok else "FAILURE", "detail": text[:200]})

    # (1) goto level: undefined functions of the linked core
    gb = os.path.join(wd, "core.gb")
    rc, out, err = sh(["goto-cc", "-I" + os.path.join(REPO, "lltdResponder")] + srcs + ["--function", "parseFrame", "-o", gb], cwd=wd)
    if rc != 0:
        res["undecided"].append("closure: goto-cc of the core failed: " + err[-500:])
        return res
    rc, out, err = sh(["goto-instrument", "--list-undefined-functions", gb], cwd=wd)
    undefined = set(l.strip() for l in out.split("\n") if re.match(r"^[A-Za-z_]\w*$", l.strip()))
    undefined = set(u for u in undefined if not CPROVER_BUILTINS.match(u))
    if not undefined:
        res["undecided"].append("closure: vacuity guard: no undefined function listed for the core")
    for u in sorted(undefined):
        ob("C20.goto-undefined." + u, u in api or u in COMPILER_RUNTIME,
           "function %s is called by the core without a definition in it: %s" % (u, "declared in lltdPort.h" if u in api else "NOT part of the documented port API"))
    # (2) object level: every compiler setting of the property's quantifier
    compilers = [c for c in ("gcc", "clang") if shutil.which(c)]
    opts = ["-O0", "-O2", "-Os"]
    modes = [[], ["-ffreestanding"]]
    n = 0
    for cc in compilers:
        for o in opts:
            for m in modes:
                objs = []
                okc = True
                for s in srcs:
                    obj = os.path.join(wd, "%s_%s_%s_%s.o" % (cc, o, "fs" if m else "h", os.path.basename(s)))
                    rc, out, err = sh([cc, "-c", o] + m + ["-I" + os.path.join(REPO, "lltdResponder"), s, "-o", obj], cwd=wd)
                    if rc != 0:
                        okc = False
                        ob("C20.compiles.%s%s%s.%s" % (cc, o, "-ffreestanding" if m else "", os.path.basename(s)), False,
                           "core file does not compile on its own: " + err[-300:])
                    objs.append(obj)
                if not okc:
                    continue
                rel = os.path.join(wd, "core_%s_%s_%s.o" % (cc, o, "fs" if m else "h"))
                rc, out, err = sh(["ld", "-r", "-o", rel] + objs, cwd=wd)
                rc, out, err = sh(["nm", "-u", rel], cwd=wd)
                und = set(l.split()[-1] for l in out.split("\n") if l.strip())
                bad = sorted(u for u in und if u not in api and u not in COMPILER_RUNTIME and not u.startswith("__stack_chk") and u != "_GLOBAL_OFFSET_TABLE_")
                ob("C20.object-undefined.%s%s%s" % (cc, o, "-ffreestanding" if m else ""), not bad,
                   "undefined symbols of the relocatably linked core outside the port API: %s" % (", ".join(bad) or "none") + " (%d undefined in total)" % len(und), sample=(n < 3))
                n += 1
                for f in objs + [rel]:
                    try:
                        os.remove(f)
                    except OSError:
                        pass
    # (3) the repository's own lint rule on the working tree
    rc, out, err = sh(["bash", os.path.join(REPO, "scripts", "lint_core_no_os_conditionals.sh")], cwd=REPO)
    ob("C20.lint-no-os-conditionals", rc == 0, "scripts/lint_core_no_os_conditionals.sh: " + ((out + err).strip()[-300:] or "clean"))
    # (4) includes of the core: only its own headers and the freestanding C headers
    allowed_sys = {"stdbool.h", "stddef.h", "stdint.h"}
    for f in sorted(os.listdir(os.path.join(REPO, "lltdResponder"))):
        if not re.search(r"\.(c|h)$", f):
            continue
        txt = open(os.path.join(REPO, "lltdResponder", f), errors="replace").read()
        sysinc = set(re.findall(r"^\s*#\s*include\s*<([^>]+)>", txt, flags=re.M))
        bad = sorted(sysinc - allowed_sys)
        ob("C20.includes." + f, not bad, "system headers included by %s beyond the freestanding set: %s" % (f, ", ".join(bad) or "none"), sample=False)
    res["summary"] = {"harness": "core_closure", "status": "ok", "backend": "goto-instrument --list-undefined-functions; %s x {-O0,-O2,-Os} x {hosted,-ffreestanding} + ld -r + nm -u; repo lint script"
                      % "/".join(compilers), "attributed": res["obligations"], "discharged": res["discharged"]}
    return res


def core_globals(tier, workroot):
    """C17 (closure of the frame argument): the only mutable object of static storage duration in the core is the list head"""
    wd = os.path.join(workroot, "globals")
    os.makedirs(wd, exist_ok=True)
    res = {"obligations": 0, "discharged": 0, "undecided": [], "violations": [], "samples": [], "bounded": []}
    srcs = [os.path.join(REPO, "lltdResponder", f) for f in CORE]
    gb = os.path.join(wd, "core.gb")
    rc, out, err = sh(["goto-cc", "-I" + os.path.join(REPO, "lltdResponder")] + srcs + ["--function", "parseFrame", "-o", gb], cwd=wd)
    if rc != 0:
        res["undecided"].append("globals: goto-cc failed: " + err[-300:])
        return res
    rc, out, err = sh(["goto-instrument", "--show-symbol-table", "--json-ui", gb], cwd=wd)
    try:
        data = json.loads(out)
    except Exception as ex:
        res["undecided"].append("globals: cannot parse symbol table: %s" % ex)
        return res
    table = None
    for e in data:
        if isinstance(e, dict) and "symbolTable" in e:
            table = e["symbolTable"]
    if table is None:
        res["undecided"].append("globals: no symbol table in goto-instrument output")
        return res
    mutable = []
    for name, s in table.items():
        if not s.get("isStaticLifetime") or not s.get("isLvalue") or s.get("isType") or s.get("isMacro"):
            continue
        loc = str(s.get("location", {}))
        if "lltdResponder" not in loc:
            continue
        ty = json.dumps(s.get("type", {}))
        if '"#constant"' in ty or "code" == s.get("type", {}).get("id"):
            continue
        if s.get("type", {}).get("id") == "code":
            continue
        mutable.append(s.get("prettyName") or name)
    mutable = sorted(set(mutable))
    res["obligations"] = 1
    ok = mutable == ["g_iface_states"]
    if not mutable:
        res["undecided"].append("globals: vacuity guard: not even g_iface_states was found")
    if ok:
        res["discharged"] = 1
    else:
        text = "mutable objects of static storage duration in the core: %s (expected exactly g_iface_states)" % mutable
        res["violations"].append({"name": "C17.core-globals", "tag": "C17.core-globals", "desc": text, "text": text, "kind": "closure", "has_input": False})
    res["samples"].append({"obligation": "C17.core-globals", "status": "SUCCESS" if ok else "FAILURE", "detail": "mutable statics: %s" % mutable})
    res["summary"] = {"harness": "core_globals", "status": "ok", "backend": "goto-instrument --show-symbol-table", "attributed": 1, "discharged": res["discharged"]}
    return res
