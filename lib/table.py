"""Harness and property tables."""
import os

TRUSTED_BASE = [
    "platform port model /verif/contracts/v_port_model.c (executable specification of lltd_port_*; assumption A1)",
    "specification functions /verif/contracts/v_spec.h (written from the property statements)",
    "CBMC 6.11.0 (goto-cc, goto-instrument --dfcc, cbmc) and the selected SAT/SMT back end",
    "C semantics as modelled by CBMC for x86-64 LP64 little-endian",
]
ASSUMPTIONS = [
    "A1 port model: getters succeed with the configured value or fail leaving outputs untouched; each allocation and each transmit may fail independently",
    "A2 clock: arbitrary between calls into the core, constant during one call; seconds and milliseconds derive from one instant; timestamps below 2^40 s",
    "A5 machine model x86-64 LP64 little-endian as laid out by goto-cc",
    "A3 a failing getter leaves its outputs untouched (proved for the five Linux getters within reach, assumed for the other ports)",
    "A4 the receive buffer has exactly MTU bytes and lltd_port_get_mtu reports that MTU (fallback 1500)",
    "A6 statements about histories follow by induction over the per-call step lemmas proved here; the induction itself is a pencil step",
    "A7 CBMC / solver soundness; leaf helpers (htons, compareEthernetAddress, mac_equal...) verified inlined",
    "A8 bounded shapes (never counted as proof, listed per harness): list lengths, <= 2 interface records, MTU instances, enumerated name lengths, Emit exactness n <= 4 (8), station counts <= 240",
    "implicit CBMC checks are disabled (pragma) inside specification and harness code only; pointer validity there is stated explicitly (V_RW_OK, v_nodes_ok)",
    "termination is not proved beyond the complete unwinding of the loops (unwinding assertions)",
]

HARNESS = {}


def H(name, **kw):
    kw["name"] = name
    kw.setdefault("fn", "h_" + name)
    HARNESS[name] = kw
    return kw


# ---------------------------------------------------------------- C13
for n, f in [("band_update", "band_update_stats"), ("band_choose", "band_choose_hello_time"),
             ("band_dohello", "band_do_hello"), ("band_heard", "band_on_hello_received"),
             ("band_init", "band_init_stats")]:
    H(n, src="h_band.c", props=["C13"], enforce=[f], unwind=8)
HARNESS["band_dohello"]["replace"] = ["band_choose_hello_time"]
H("c13_monotone", src="h_band.c", props=["C13"], unwind=4, port_model=True, no_native=False)

# ---------------------------------------------------------------- C14 / C15 / C18 constructors and steps
_US = {"switch_state_mapping.0": 130, "switch_state_session.0": 130, "switch_state_enumeration.0": 130}
H("ctor_mapping", src="h_autom.c", props=["C18", "C19"], enforce=["init_automata_mapping"], unwindset=_US,
  must_reach=["end", "ok", "null"], safety_props=["C18"], unwind=8)
H("ctor_enum", src="h_autom.c", props=["C18", "C19"], enforce=["init_automata_enumeration"], unwindset=_US,
  must_reach=["end", "ok", "null"], safety_props=["C18"], unwind=8)
H("ctor_session", src="h_autom.c", props=["C18", "C19"], enforce=["init_automata_session"], unwindset=_US,
  must_reach=["end", "ok", "null"], safety_props=["C18"], unwind=8)
H("map_step", src="h_autom.c", props=["C14"], enforce_rec=["switch_state_mapping"], unwindset=_US, unwind=8)
H("sess_step", src="h_autom.c", props=["C15"], enforce_rec=["switch_state_session"], unwindset=_US, unwind=8)
H("enum_step", src="h_autom.c", props=["C12"], enforce=["switch_state_enumeration"], unwindset=_US, unwind=8)

# ---------------------------------------------------------------- C16 session table
_UT = {"session_table_find.0": 17, "session_table_add.0": 17, "session_table_remove.0": 17,
       "session_table_update_complete_status.0": 17}
for n, f, rep in [("tab_find", "session_table_find", []), ("tab_add", "session_table_add", []),
                  ("tab_remove", "session_table_remove", ["session_table_update_complete_status"]),
                  ("tab_update", "session_table_update_complete_status", []),
                  ("tab_clear", "session_table_clear", [])]:
    H(n, src="h_table.c", props=["C16"], enforce=[f], replace=rep, unwindset=_UT, unwind=8,
      shards={"tab_add": 12, "tab_remove": 8, "tab_find": 4}.get(n, 1))
H("tab_queries", src="h_table.c", props=["C16"], enforce=["session_table_is_empty", "session_table_all_complete"],
  unwindset=_UT, unwind=8)
H("tab_nullargs", src="h_table.c", props=["C16"], unwindset=_UT, unwind=8)
H("tab_create", src="h_table.c", props=["C16", "C18", "C19"], enforce=["session_table_create"], unwindset=_UT, unwind=8,
  must_reach=["end", "ok", "null"], safety_props=["C18"])

# ---------------------------------------------------------------- C11 classifier
H("derive", src="h_derive.c", props=["C11"], enforce=["derive_session_event"],
  unwind=8, unwindset={"derive_session_event.0": 242, "h_derive.0": 242, "session_table_find.0": 17}, must_reach=["end", "reset", "present", "absent", "other"],
  shards=6, bounded="station counts 0..240 (the property's quantifier range) by complete unwinding; counts above are the C01 known finding")
H("derive_oob", src="h_derive.c", props=["C01"], enforce=["derive_session_event"], unwind=8,
  unwindset={"derive_session_event.0": 100, "h_derive_oob.0": 580}, defines=["OOB_CAP=576"], no_native=False, no_second_pass=True,   # the failed fatal check here IS the known finding
  unwind_props={"derive_session_event.0": ["C01"]})

# ---------------------------------------------------------------- C12 / C14 / C16 tick and mapping timers
for n, f in [("mt_reset_charge", "mapping_reset_charge"), ("mt_on_charge", "mapping_on_charge"),
             ("mt_check_charge", "mapping_check_charge_timeout"), ("mt_check_inactive", "mapping_check_inactive_timeout"),
             ("mt_reset_inactive", "mapping_reset_inactive_timeout")]:
    H(n, src="h_tick.c", props=["C14"], enforce=[f], unwind=8)
H("tick", src="h_tick.c", props=["C12", "C13", "C14", "C16"], enforce=["automata_tick"],
  replace=["session_table_clear", "session_table_update_complete_status", "session_table_is_empty", "session_table_all_complete",
           "mapping_check_inactive_timeout", "mapping_check_charge_timeout", "mapping_reset_charge",
           "band_update_stats", "band_choose_hello_time", "band_do_hello"],
  unwind=8, unwindset={"switch_state_mapping.0": 130, "switch_state_enumeration.0": 130, "automata_tick.0": 17},
  must_reach=["end", "inactive", "sweep", "sent", "block"], shards=12, object_bits=10, mem_est_gb=4)

# ---------------------------------------------------------------- lltdBlock.c: emit path
H("send_probe", src="h_emit.c", props=["C06", "C10", "C02", "C18", "C19", "C17"], enforce=["sendProbeMsg"], unwind=8,
  must_reach=["end", "acked", "allocfail", "tx"], safety_props=["C18"])

_EMIT_PROPS = ["C06", "C01", "C02", "C19", "C05", "C10"]
H("parse_emit", src="h_emit.c", props=_EMIT_PROPS + ["C18"], enforce=["parseEmit"], replace=["sendProbeMsg"], safety_props=["C18"],
  unwind=8, unwindset={"parseEmit.0": 40}, defines=["V_MTU_FIXED=576"], unwind_props={"parseEmit.0": ["C06", "C01"]},
  bounded="frame object of exactly MTU bytes with MTU fixed to 576 ; descriptor loop completely unwound for that MTU")
H("parse_emit_strict", src="h_emit.c", props=_EMIT_PROPS, enforce=["parseEmit"],
  unwind=10, unwindset={"parseEmit.0": 10}, defines=["V_MTU_FIXED=576"], defines_quick=["V_STRICT_N=4"], defines_thorough=["V_STRICT_N=8"],
  must_reach=["end", "tx"], timeout_thorough=3000,
  bounded="exact-count / order / per-frame content clause for n = 1..4 descriptors (thorough: 1..8), MTU fixed to 576; the general harness covers every count for the bound clause")
for _m, _cap in ((76, 3), (83, 3), (62, 2)):
    H("parse_emit_strict_mtu%d" % _m, src="h_emit.c", fn="h_parse_emit_strict", props=_EMIT_PROPS, enforce=["parseEmit"],
      unwind=10, unwindset={"parseEmit.0": 10}, defines=["V_MTU_FIXED=%d" % _m, "V_SMALL_MTU=1", "V_STRICT_N=%d" % _cap], must_reach=["end", "tx"],
      unwind_props={"parseEmit.0": ["C06", "C01"]},
      bounded="small-frame instance MTU=%d: a maximum-size Emit (%d descriptors, (MTU-34) mod 14 = %d) is reachable; code uniform in MTU" % (_m, _cap, (_m - 34) % 14))
    H("parse_emit_mtu%d" % _m, src="h_emit.c", fn="h_parse_emit", props=_EMIT_PROPS + ["C18"], enforce=["parseEmit"], replace=["sendProbeMsg"], safety_props=["C18"],
      unwind=8, unwindset={"parseEmit.0": 8}, defines=["V_MTU_FIXED=%d" % _m, "V_SMALL_MTU=1"], unwind_props={"parseEmit.0": ["C06", "C01"]},
      bounded="small-frame instance MTU=%d, every declared count; code uniform in MTU" % _m)
# symbolic MTU 576..9216, ANY declared count: the descriptor loop is closed by a LOOP CONTRACT (inductive invariant + decreases clause), no unwinding
H("parse_emit_symmtu", src="h_emit_sym.c", props=_EMIT_PROPS + ["C18"], enforce=["parseEmit"], replace=["sendProbeMsg"], safety_props=["C18"],
  loops=True, loops_file=os.path.join(os.path.dirname(os.path.dirname(os.path.abspath(__file__))), "harness", "h_emit_sym.loops.json"),
  unwind=12, must_reach=["end"], no_native=True, loop_contracts=["parseEmit.0"])
_EMIT_SMALL = ["parse_emit_symmtu", "parse_emit_strict_mtu76", "parse_emit_strict_mtu83", "parse_emit_strict_mtu62", "parse_emit_mtu76", "parse_emit_mtu83", "parse_emit_mtu62"]
# (an MTU-1500 instance of parse_emit - 105 unwound iterations of the replaced callee - ran out of memory at the 12 object bits it needs; not run)

# ---------------------------------------------------------------- lltdBlock.c: observation path (C07 / C19)
_PQ = ["C07", "C19", "C01", "C02", "C18", "C17", "C05", "C10"]
_LD = {"quick": ["V_LIST_MAX=3"], "thorough": ["V_LIST_MAX=5"]}
H("parse_probe", src="h_probe_query.c", props=_PQ, enforce=["parseProbe"], unwind=8, unwindset={"v_build_state.0": 50, "lltd_port_memcpy.0": 65}, defines=["V_MTU_FIXED=576", "LLTD_SEE_LIST_MAX=3"],
  defines_quick=_LD["quick"], defines_thorough=["V_LIST_MAX=5", "LLTD_SEE_LIST_MAX=5"] , must_reach=["end", "recorded"],
  bounded="observation list of at most 3 nodes (thorough 5); the cap LLTD_SEE_LIST_MAX is compiled as 3 (thorough 5) so that 'list full' is reachable (code uniform in the cap)")
H("parse_query", src="h_probe_query.c", props=_PQ, enforce=["parseQuery"], unwind=8, unwindset={"parseQuery.0": 8, "lltd_state_clear_seen_probes.0": 8, "parseQuery.1": 8, "v_build_state.0": 50, "lltd_port_memcpy.0": 65},
  defines=["V_MTU_FIXED=576", "V_TXCAP=160"], defines_quick=_LD["quick"], defines_thorough=_LD["thorough"],
  must_reach=["end", "answered", "tx"], bounded="observation list of at most 3 nodes (thorough 5)")
for mtu in (60, 72, 80, 93):
    H("parse_query_mtu%d" % mtu, src="h_probe_query.c", fn="h_parse_query", props=_PQ, enforce=["parseQuery"], unwind=8,
      unwindset={"parseQuery.0": 8, "lltd_state_clear_seen_probes.0": 8, "parseQuery.1": 8, "v_build_state.0": 50, "lltd_port_memcpy.0": 65},
      defines=["V_MTU_FIXED=%d" % mtu, "V_SMALL_MTU=1"], defines_quick=_LD["quick"], defines_thorough=_LD["thorough"],
      must_reach=["end", "answered", "overflow", "tx"],
      bounded="small-frame instance MTU=%d (capacity %d) so that 'more observations than fit' is reachable with lists of <= 3 (5) nodes; code is uniform in MTU" % (mtu, (mtu - 34) // 20))

H("parse_query_fullmtu", src="h_probe_query.c", fn="h_parse_query", props=_PQ, enforce=["parseQuery"], unwind=8,
  unwindset={"parseQuery.0": 8, "lltd_state_clear_seen_probes.0": 8, "parseQuery.1": 8, "v_build_state.0": 50, "lltd_port_memcpy.0": 65},
  defines=["V_FULL_SYM_MTU=1"], defines_quick=_LD["quick"], defines_thorough=_LD["thorough"], no_native=True,
  must_reach=["end", "answered", "tx"], bounded="observation list of at most 3 nodes (thorough 5); MTU SYMBOLIC over [576, 9216] (receive and transmit buffers of exactly MTU bytes)")
H("c10_peer", src="h_c10.c", props=["C10"], enforce=["parseProbe"], unwind=8, unwindset={"v_build_state.0": 50, "parseProbe.0": 8},
  defines=["V_MTU_FIXED=576", "LLTD_SEE_LIST_MAX=3"], defines_quick=["V_LIST_MAX=3"], defines_thorough=["V_LIST_MAX=5", "LLTD_SEE_LIST_MAX=5"],
  bounded="observer's list of at most 3 (thorough 5) nodes")
# ---------------------------------------------------------------- lltdBlock.c: large properties (C08)
_LT = ["C08", "C19", "C01", "C02", "C18", "C17", "C05"]
H("send_ltr", src="h_large_tlv.c", props=_LT, enforce=["sendLargeTlvResponse"], unwind=8, unwindset={"v_build_state.0": 50},
  defines=["V_MTU_FIXED=576", "V_LIST_MAX=3"], defines_quick=["V_DCAP=2048"], defines_thorough=["V_DCAP=66000"], timeout_thorough=3000,
  must_reach=["end", "more", "final", "beyond", "tx"],
  bounded="MTU fixed to 576; property data of at most 2048 bytes (thorough: 66000) with every (size, offset) symbolic")
H("send_ltr_symmtu", src="h_large_tlv.c", fn="h_send_ltr", props=_LT, enforce=["sendLargeTlvResponse"], unwind=8, unwindset={"v_build_state.0": 50},
  defines=["V_MTU_FIXED=576", "V_LIST_MAX=3", "V_SYM_MTU=1", "V_DCAP=2048"], no_native=True, must_reach=["end", "more", "final", "beyond", "tx"],
  bounded="property data of at most 2048 bytes with every (size, offset) symbolic; MTU SYMBOLIC over [576, 9216]")
H("parse_qlt", src="h_large_tlv.c", props=_LT, enforce=["parseQueryLargeTlv"], unwind=8,
  unwindset={"v_build_state.0": 50, "parseQueryLargeTlv.0": 34, "v_hwid_size.0": 34, "h_parse_qlt.0": 66, "h_parse_qlt.1": 66, "v_give_blob.0": 50, "lltd_port_get_hw_id.0": 66},
  defines=["V_MTU_FIXED=576", "V_LIST_MAX=3"], must_reach=["end", "icon", "fname", "hwid", "unknown", "seq0", "tx"],
  bounded="MTU fixed to 576; icon / friendly name of at most 48 bytes in the platform model")
H("parse_qlt_bigicon", src="h_large_tlv.c", fn="h_parse_qlt", props=_LT, enforce=["parseQueryLargeTlv"], replace=["sendLargeTlvResponse"], unwind=8,
  unwindset={"v_build_state.0": 50, "parseQueryLargeTlv.0": 34, "v_hwid_size.0": 34, "h_parse_qlt.0": 66, "h_parse_qlt.1": 66, "v_give_blob.0": 50, "lltd_port_get_hw_id.0": 66},
  defines=["V_MTU_FIXED=576", "V_LIST_MAX=3", "V_ICON_BIG=1"], no_native=True, must_reach=["end", "icon", "bigicon", "fname", "hwid", "unknown", "seq0"],
  bounded="MTU fixed to 576; icon of ANY size 0..65535 with contents not modelled (caching / ownership logic and the arguments handed to sendLargeTlvResponse, which is replaced by its proved contract)")
H("c08_reassembly", src="h_large_tlv.c", props=["C08"], unwind=8, defines=["V_LIST_MAX=3"])

# ---------------------------------------------------------------- lltdBlock.c: dispatcher
H("parse_frame", src="h_parse_frame.c", props=["C05", "C09", "C17", "C03", "C02", "C19", "C18", "C01", "C07", "C06", "C08", "C10"],
  replace=["answerHello", "parseEmit", "parseQuery", "parseQueryLargeTlv"],     # parseProbe is inlined (a replaced contract that creates a list node lost the node's contents after the call)
  unwind=24, unwindset={"v_build_state.0": 50, "lltd_state_for_iface.0": 4, "lltd_state_clear_seen_probes.0": 8, "parseProbe.0": 8},
  defines=["V_MTU_FIXED=576"], defines_quick=["V_LIST_MAX=2", "LLTD_SEE_LIST_MAX=2"], defines_thorough=["V_LIST_MAX=4", "LLTD_SEE_LIST_MAX=4"],
  must_reach=["end", "absent-fail", "absent-ok", "foreign", "accept", "reject", "reset", "emit", "probe"], shards=8, mem_est_gb=6,
  bounded="records of at most 2 interfaces in the global list; observation lists of at most 2 (thorough 4) nodes in the dispatcher harness, with the cap LLTD_SEE_LIST_MAX compiled to the same value; MTU fixed to 576")

H("state_for_iface", src="h_state.c", props=["C09", "C17", "C18", "C19"], enforce=["lltd_state_for_iface"], unwind=8,
  unwindset={"v_build_state.0": 50, "lltd_state_for_iface.0": 4}, defines_quick=["V_LIST_MAX=2"], defines_thorough=["V_LIST_MAX=4"],
  must_reach=["end", "present", "created", "failed"], bounded="at most 2 interface records in the global list")
H("state_clear", src="h_state.c", props=["C09", "C19"], enforce=["lltd_state_clear_seen_probes", "lltd_state_clear_icon_cache"], unwind=8,
  unwindset={"v_build_state.0": 50, "lltd_state_clear_seen_probes.0": 8}, defines_quick=["V_LIST_MAX=3"], defines_thorough=["V_LIST_MAX=5"],
  bounded="observation lists of at most 3 (thorough 5) nodes")
# ---------------------------------------------------------------- Hello: writers and assembly (C02 / C03 / C04)
H("tlv_writers", src="h_tlv.c", props=["C04", "C02", "C01", "C17"], unwind=8,
  enforce=["setHostIdTLV", "setCharacteristicsTLV", "setPhysicalMediumTLV", "setWirelessTLV", "setBSSIDTLV", "setSSIDTLV", "setIPv4TLV",
           "setIPv6TLV", "setWifiMaxRateTLV", "setPerfCounterTLV", "setLinkSpeedTLV", "setWifiRssiTLV", "setIconImageTLV", "setHostnameTLV",
           "setSupportInfoTLV", "setFriendlyNameTLV", "setHardwareIdTLV", "setQosCharacteristicsTLV"],
  unwindset={"h_tlv_writers.0": 162, "h_tlv_writers.1": 162, "v_copy_name.0": 42, "lltd_port_get_hw_id.0": 66, "lltd_port_get_ipv6_address.0": 18, "lltd_port_get_bssid.0": 8}, shards=8, must_reach=["end", "hostname", "rssi"])
H("tlv_determinism", src="h_tlv.c", props=["C02"], unwind=8, shards=4, must_reach=["end", "bssid-unavailable"], no_native=True,
  unwindset={"h_tlv_determinism.0": 162, "h_tlv_determinism.1": 162, "h_tlv_determinism.2": 162, "v_copy_name.0": 42, "lltd_port_get_hw_id.0": 66, "lltd_port_get_ipv6_address.0": 18, "lltd_port_get_bssid.0": 8})
H("wire_headers", src="h_tlv.c", props=["C02", "C03", "C01", "C11"], unwind=8, unwindset={"h_wire_headers.0": 66, "h_wire_headers.1": 66, "h_wire_headers.2": 66, "h_wire_headers.3": 66})
import copy as _copy
_twbe = _copy.deepcopy(HARNESS["tlv_writers"]); _twbe.update(name="tlv_writers_be", cc_flags=["--big-endian"], cbmc_flags=["--big-endian"], no_native=True,
                                                              thorough_only=True, bounded="big-endian machine model")
HARNESS["tlv_writers_be"] = _twbe
H("wire_headers_be", src="h_tlv.c", fn="h_wire_headers", props=["C02", "C03", "C04", "C01"], unwind=8,
  unwindset={"h_wire_headers.0": 66, "h_wire_headers.1": 66, "h_wire_headers.2": 66, "h_wire_headers.3": 66},
  cc_flags=["--big-endian"], cbmc_flags=["--big-endian"], no_native=True,
  bounded="big-endian machine model (the runtime endianness probe of lltdEndian.h takes its other branch)")
_HOSTLENS = {"quick": [7, 40], "thorough": [0, 1, 7, 16, 31, 32, 33, 40]}
def _hello(w, hl, sl, tiers):
    n = "answer_hello_w%d_h%d_s%d" % (w, hl, sl)
    H(n, src="h_hello.c", fn="h_answer_hello", props=["C02", "C03", "C04", "C01", "C18", "C19", "C17"],
      enforce=["answerHello"], unwind=8, unwindset={"v_build_state.0": 50, "v_copy_name.0": 42, "lltd_port_get_ipv6_address.0": 18, "lltd_port_get_bssid.0": 8},
      defines=["V_WIFI=%d" % w, "V_HOSTLEN=%d" % hl, "V_SSIDLEN=%d" % sl, "V_TXCAP=256", "V_LIST_MAX=3"], must_reach=["end", "tx"], timeout=2400, mem_gb=48, mem_est_gb=19,
      thorough_only=("quick" not in tiers),
      bounded="machine-name length %d, SSID length %d (one run per length: quick machine name 7 / 40 wired and SSID 40 wireless, thorough 0/1/7/16/31/32/33/40 for both; symbolic lengths are covered per writer in tlv_writers); transmit buffer modelled with a constant capacity of 256 bytes" % (hl, sl))
    return n
_HELLO_ALL, _HELLO_QUICK = [], []
for hl in _HOSTLENS["thorough"]:
    q = hl in _HOSTLENS["quick"]
    n = _hello(0, hl, 0, ["quick", "thorough"] if q else ["thorough"]); _HELLO_ALL.append(n)
    if q: _HELLO_QUICK.append(n)
# Wireless instances (V_WIFI=1) are defined but NOT run by any check: a single instance needs more than the 62 GB of this
# machine (measured 47-65 GB resident, with or without DFCC, with or without the value re-check).  The wireless direction of
# "wireless properties iff Wi-Fi" is therefore decided per writer only (tlv_writers: setWirelessTLV / setBSSIDTLV produce
# nothing iff the platform reports no Wi-Fi / no BSSID) - see DESIGN.md section 4, C04.
_W1 = _hello(1, 7, 40, ["never"])
# GATE instance: wired AND wireless, every attribute tuple and every name length symbolic - the writers abstracted by the presence /
# length part of their own proved contracts (see h_hello.c); decides which writers answerHello calls under which platform answers.
H("hello_gate", src="h_hello.c", fn="h_answer_hello", props=["C04", "C02", "C03", "C01", "C18", "C19", "C17"], enforce=["answerHello"], unwind=8,
  unwindset={"v_build_state.0": 50}, defines=["V_HELLO_GATE=1", "V_TXCAP=256", "V_LIST_MAX=3"], must_reach=["end", "tx", "wireless", "wired"], shards=3, mem_est_gb=14, timeout=1500,
  bounded="property writers abstracted to (presence, legal length, header bytes) as their contracts state; transmit buffer modelled with a constant capacity of 256 bytes")

# ---------------------------------------------------------------- platform layer / embedded entry point / closure
import closure
H("linux_getters", src="h_linux_port.c", props=["C04"], port_model=False, unwind=8,
  enforce=["lltd_port_get_mtu", "lltd_port_get_if_type", "lltd_port_get_link_speed_100bps"],
  cc_flags=["-DLINUX"], must_reach=["end", "ok"], no_native=True)
H("linux_ifaddrs", src="h_linux_port.c", props=["C04"], port_model=False, unwind=8,
  enforce=["lltd_port_get_ipv4_address", "lltd_port_get_ipv6_address"], cc_flags=["-DLINUX"], no_native=True,
  unwindset={"memcpy.0": 18, "h_linux_ifaddrs.0": 8, "h_linux_ifaddrs.1": 18, "v_ifa_build.0": 18, "v_ifa_build.1": 8, "strcmp.0": 6},
  must_reach=["end", "found4-later", "found6", "none4"],
  bounded="getifaddrs lists of at most 3 entries, interface names of at most 3 characters (environment model of getifaddrs / freeifaddrs trusted)")
H("esp32_frame", src="h_esp32.c", props=["C01", "C18"], unwind=8, safety_props=["C18"], shards=8,
  unwindset={"h_esp32_frame.0": 42, "h_esp32_frame.1": 42, "h_esp32_frame.2": 42, "switch_state_mapping.0": 130,
             "switch_state_session.0": 130, "switch_state_enumeration.0": 130},
  must_reach=["end", "handled", "short", "degraded"], no_native=True,
  bounded="told lengths 0..40 (the header guard is at 32); the buffer object has exactly the told length")

# ---------------------------------------------------------------- Linux embedded daemon glue (assumption A4 of the core proofs becomes an obligation)
_LD_US = {"strncpy.0": 18, "strlen.0": 6, "strcpy.0": 6, "strcmp.0": 6, "listInterfaces.0": 4, "listInterfaces.1": 4, "getifaddrs.0": 4,
          "lltd_embedded_main.0": 3, "lltd_embedded_main.1": 4, "lltd_embedded_main.2": 3, "lltd_embedded_main.3": 4, "v_ioctl.0": 8}
H("linux_fill", src="h_linux_daemon.c", props=["C01", "C04", "C18"], enforce=["fillInterfaceDetails"], unwind=12, unwindset=_LD_US, safety_props=["C18"],
  cbmc_flags=["--malloc-may-fail", "--malloc-fail-null"], must_reach=["end", "ok", "failed"], no_native=True,
  bounded=None)
H("linux_loop", src="h_linux_daemon.c", props=["C01", "C17"], enforce=["lltdLoop"], replace=["parseFrame", "switch_state_mapping", "switch_state_session"],
  loops=True, loops_file=os.path.join(os.path.dirname(os.path.dirname(os.path.abspath(__file__))), "harness", "h_linux_daemon.loops.json"),
  unwind=12, unwindset=_LD_US, must_reach=["end"], no_native=True, loop_contracts=["lltdLoop.0"])
H("linux_fill_sd", src="h_linux_daemon.c", fn="h_linux_fill", props=["C01", "C04", "C18"], enforce=["fillInterfaceDetails"], unwind=12, unwindset=_LD_US, safety_props=["C18"],
  defines=["V_SYSTEMD=1"], cbmc_flags=["--malloc-may-fail", "--malloc-fail-null"], must_reach=["end", "ok", "failed"], no_native=True,
  bounded=None)
H("linux_loop_sd", src="h_linux_daemon.c", fn="h_linux_loop", props=["C01", "C17"], enforce=["lltdLoop"], replace=["parseFrame", "switch_state_mapping", "switch_state_session"],
  defines=["V_SYSTEMD=1"], loops=True, loops_file=os.path.join(os.path.dirname(os.path.dirname(os.path.abspath(__file__))), "harness", "h_linux_daemon.loops.json"),
  unwind=12, unwindset=_LD_US, must_reach=["end"], no_native=True, loop_contracts=["lltdLoop.0"])
# (a harness of the daemon's main - the per-interface start sequence up to pthread_create, with the obligation "the thread context satisfies
# lltdLoop's precondition" - was built and could not be decided: out of memory at 24 GB with CBMC's safety checks, with and without DFCC,
# and no result within 900 s with the checks off and the constructors replaced by their contracts; see DESIGN.md section 4, C01)
_HANDLERS = ["send_probe", "parse_emit", "parse_emit_strict"] + _EMIT_SMALL + [ "parse_probe", "parse_query", "parse_query_mtu60", "parse_query_mtu72",
             "parse_query_mtu80", "parse_query_mtu93", "parse_query_symmtu", "parse_query_fullmtu", "send_ltr", "send_ltr_symmtu", "parse_qlt"]
_FRAME_PATH = ["parse_frame"] + _HELLO_ALL + _HANDLERS
_H1 = [_HELLO_QUICK[0]]          # one Hello instance where the Hello-specific clauses are not the point (quick tier)
H("parse_query_symmtu", src="h_probe_query.c", fn="h_parse_query", props=_PQ, enforce=["parseQuery"], unwind=8,
  unwindset={"parseQuery.0": 8, "lltd_state_clear_seen_probes.0": 8, "parseQuery.1": 8, "v_build_state.0": 50},
  defines=["V_MTU_FIXED=160", "V_SYM_SMALL_MTU=1", "V_TXOVER=160"], defines_quick=_LD["quick"], defines_thorough=_LD["thorough"],
  must_reach=["end", "answered", "overflow", "tx"], shards=4,
  bounded="symbolic small MTU 54..135 (every residue of (MTU-34) mod 20, capacity 1..5) with an over-sized transmit object whose writes are checked against the requested size; outside the property's MTU range, code uniform in MTU")
PROPS = {
    "C01": {"harnesses": _FRAME_PATH + ["tlv_writers", "wire_headers", "derive", "derive_oob", "esp32_frame", "linux_fill", "linux_loop", "linux_fill_sd", "linux_loop_sd", "map_step", "sess_step", "enum_step", "tick"],
            "harnesses_quick": ["parse_frame"] + _H1 + _HANDLERS + ["tlv_writers", "wire_headers", "derive_oob", "esp32_frame", "linux_fill", "linux_loop", "linux_fill_sd", "linux_loop_sd", "map_step", "sess_step", "enum_step"]},
    "C02": {"harnesses": _FRAME_PATH + ["tlv_writers", "tlv_determinism", "hello_gate", "wire_headers", "wire_headers_be"],
            "harnesses_quick": ["parse_frame"] + _HELLO_QUICK[:2] + _HANDLERS + ["tlv_writers", "tlv_determinism", "wire_headers", "wire_headers_be"]},
    "C09": {"harnesses": ["parse_frame", "state_for_iface", "state_clear", "parse_probe", "parse_query", "parse_qlt", "send_ltr", "parse_emit", "send_probe"] + _H1,
            # second half of the argument: every handler's outputs are pinned by its contract as a function of the KNOWN fields of the
            # record, the frame and the configuration - proved with every other byte of the record arbitrary, so a hidden field that
            # survives a Reset and influences a later answer fails a handler clause.  Those clauses are adopted by C09.
            "adopt": {"harnesses": ["parse_probe", "parse_query", "parse_qlt", "send_ltr", "parse_emit", "send_probe"] + _H1,
                      "props": ["C02", "C03", "C06", "C07", "C08", "C10"]},
            "explanation": "Reset arm and record creation are proved here; the determinism of every handler's outputs in (record, frame, configuration) is what the handler contracts proved under C03/C06/C07/C08 state"},
    "C17": {"harnesses": ["parse_frame", "send_probe", "parse_probe", "parse_query", "parse_qlt", "tlv_writers", "state_for_iface", "linux_loop", "linux_loop_sd"] + _H1,
            "harnesses_quick": ["parse_frame", "send_probe", "parse_probe", "parse_query", "parse_qlt", "state_for_iface", "linux_loop", "linux_loop_sd"],
            "extra_steps": [closure.core_globals]},
    "C19": {"harnesses": _FRAME_PATH + ["ctor_mapping", "ctor_enum", "ctor_session", "tab_create", "state_for_iface", "state_clear"],
            "harnesses_quick": ["parse_frame"] + _H1 + _HANDLERS + ["ctor_mapping", "ctor_enum", "ctor_session", "tab_create", "state_for_iface", "state_clear"]},
    "C20": {"harnesses": [], "extra_steps": [closure.core_closure], "level": "other",
            "explanation": "closure condition of the modular proof: the linked core's undefined functions are exactly port-API functions (goto level and, for every compiler x optimisation x hosted/freestanding setting of the property, object level); the repository's own lint rule; no system header beyond the freestanding set",
            "technique": "closure check of the contract proof: undefined-function set of the linked core (goto-instrument, nm over the stated compiler matrix) compared with the functions declared in lltdPort.h; DFCC additionally fails any call to a function with neither body nor contract"},
    "C04": {"harnesses": ["tlv_writers", "tlv_writers_be", "wire_headers_be", "linux_getters", "linux_ifaddrs", "hello_gate"] + _HELLO_ALL},
    "C03": {"harnesses": _HELLO_ALL + ["wire_headers", "parse_frame"]},
    "C05": {"harnesses": ["parse_frame", "parse_emit", "parse_query", "parse_qlt"] + _H1,
            "explanation": "parseFrame is proved with the handlers replaced by their contracts; the mapper clauses of those contracts (C05.emit-state, C05.query-mapper, C05.qlt-state, C05.hello-state) are proved on the handlers here"},
    "C08": {"harnesses": ["send_ltr", "send_ltr_symmtu", "parse_qlt", "parse_qlt_bigicon", "c08_reassembly"]},
    "C07": {"harnesses": ["parse_probe", "parse_query", "parse_query_fullmtu", "parse_query_mtu60", "parse_query_mtu72", "parse_query_mtu80", "parse_query_mtu93", "parse_query_symmtu"]},
    "C06": {"harnesses": ["send_probe", "parse_emit", "parse_emit_strict", "parse_frame"] + _EMIT_SMALL,
            "explanation": "sendProbeMsg and parseEmit against their contracts; the exact-count clause on small-frame instances where a maximum-size Emit is reachable; the dispatcher clause C06.emit-dispatched (parseFrame hands the active mapper's Emit to parseEmit)"},
    "C10": {"harnesses": ["send_probe", "parse_emit_strict", "parse_probe", "c10_peer"]},
    "C11": {"harnesses": ["derive"]},
    "C16": {"harnesses": ["tab_find", "tab_add", "tab_remove", "tab_update", "tab_queries", "tab_clear", "tab_create", "tab_nullargs", "tick"]},
    "C14": {"harnesses": ["map_step", "tick", "mt_reset_charge", "mt_on_charge", "mt_check_charge", "mt_check_inactive", "mt_reset_inactive"]},
    "C12": {"harnesses": ["tick", "enum_step"]},
    "C15": {"harnesses": ["sess_step"]},
    "C18": {"harnesses": ["ctor_mapping", "ctor_enum", "ctor_session", "tab_create", "state_for_iface", "esp32_frame", "linux_fill", "linux_fill_sd"] + [h for h in _FRAME_PATH if not h.startswith("parse_emit_strict")],
            "harnesses_quick": ["ctor_mapping", "ctor_enum", "ctor_session", "tab_create", "state_for_iface", "esp32_frame", "linux_fill", "linux_fill_sd", "parse_frame"] + _H1 + [h for h in _HANDLERS if not h.startswith("parse_emit_strict")]},
    "C13": {
        "harnesses": ["band_update", "band_choose", "band_dohello", "band_heard", "band_init", "c13_monotone", "tick"],
        "explanation": "band_* functions enforced against contracts whose postconditions are the closed forms of "
                       "min(NMAX, ALPHA*r^2) and max(6, ceil(80*Ni/30)); monotonicity is a lemma over those spec functions",
    },
}

NOT_CLAIMED = {}
