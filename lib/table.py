"""Harness and property tables."""

TRUSTED_BASE = [
    "platform port model /verif/contracts/v_port_model.c (executable specification of lltd_port_*; assumption A1)",
    "specification functions /verif/contracts/v_spec.h (written from the property statements)",
    "CBMC 6.11.0 (goto-cc, goto-instrument --dfcc, cbmc) and the selected SAT/SMT back end",
    "C semantics as modelled by CBMC for x86-64 LP64 little-endian",
]
ASSUMPTIONS = [
    "A1 port model: getters succeed with the configured value or fail leaving outputs untouched; each allocation and each transmit may fail independently",
    "A2 monotone clock; seconds and milliseconds derive from one instant; timestamps below 2^40 s",
    "A5 machine model x86-64 LP64 little-endian as laid out by goto-cc",
    "A7 CBMC / solver soundness; leaf helpers (htons, compareEthernetAddress, mac_equal...) verified inlined",
]

HARNESS = {}


def H(name, **kw):
    kw["name"] = name
    kw.setdefault("fn", "h_" + name)
    HARNESS[name] = kw
    return kw


# ---------------------------------------------------------------- C13
for n, f in [("band_update", "band_update_stats"), ("band_choose", "band_choose_hello_time"),
             ("band_dohello", "band_do_hello"), ("band_heard", "band_on_hello_received"),
             ("band_init", "band_init_stats")]:
    H(n, src="h_band.c", props=["C13"], enforce=[f], unwind=8)
HARNESS["band_dohello"]["replace"] = ["band_choose_hello_time"]
H("c13_monotone", src="h_band.c", props=["C13"], unwind=4, port_model=True, no_native=False)

# ---------------------------------------------------------------- C14 / C15 / C18 constructors and steps
_US = {"switch_state_mapping.0": 130, "switch_state_session.0": 130, "switch_state_enumeration.0": 130}
H("ctor_mapping", src="h_autom.c", props=["C18", "C19"], enforce=["init_automata_mapping"], unwindset=_US,
  must_reach=["end", "ok", "null"], safety_props=["C18"], unwind=8)
H("ctor_enum", src="h_autom.c", props=["C18", "C19"], enforce=["init_automata_enumeration"], unwindset=_US,
  must_reach=["end", "ok", "null"], safety_props=["C18"], unwind=8)
H("ctor_session", src="h_autom.c", props=["C18", "C19"], enforce=["init_automata_session"], unwindset=_US,
  must_reach=["end", "ok", "null"], safety_props=["C18"], unwind=8)
H("map_step", src="h_autom.c", props=["C14"], enforce_rec=["switch_state_mapping"], unwindset=_US, unwind=8)
H("sess_step", src="h_autom.c", props=["C15"], enforce_rec=["switch_state_session"], unwindset=_US, unwind=8)
H("enum_step", src="h_autom.c", props=["C12"], enforce=["switch_state_enumeration"], unwindset=_US, unwind=8)

# ---------------------------------------------------------------- C16 session table
_UT = {"session_table_find.0": 17, "session_table_add.0": 17, "session_table_remove.0": 17,
       "session_table_update_complete_status.0": 17}
for n, f, rep in [("tab_find", "session_table_find", []), ("tab_add", "session_table_add", []),
                  ("tab_remove", "session_table_remove", ["session_table_update_complete_status"]),
                  ("tab_update", "session_table_update_complete_status", []),
                  ("tab_clear", "session_table_clear", [])]:
    H(n, src="h_table.c", props=["C16"], enforce=[f], replace=rep, unwindset=_UT, unwind=8,
      shards={"tab_add": 12, "tab_remove": 8, "tab_find": 4}.get(n, 1))
H("tab_queries", src="h_table.c", props=["C16"], enforce=["session_table_is_empty", "session_table_all_complete"],
  unwindset=_UT, unwind=8)
H("tab_nullargs", src="h_table.c", props=["C16"], unwindset=_UT, unwind=8)
H("tab_create", src="h_table.c", props=["C16", "C18", "C19"], enforce=["session_table_create"], unwindset=_UT, unwind=8,
  must_reach=["end", "ok", "null"], safety_props=["C18"])

PROPS = {
    "C16": {"harnesses": ["tab_find", "tab_add", "tab_remove", "tab_update", "tab_queries", "tab_clear", "tab_create", "tab_nullargs"]},
    "C14": {"harnesses": ["map_step"]},
    "C15": {"harnesses": ["sess_step"]},
    "C18": {"harnesses": ["ctor_mapping", "ctor_enum", "ctor_session", "tab_create"]},
    "C13": {
        "harnesses": ["band_update", "band_choose", "band_dohello", "band_heard", "band_init", "c13_monotone"],
        "explanation": "band_* functions enforced against contracts whose postconditions are the closed forms of "
                       "min(NMAX, ALPHA*r^2) and max(6, ceil(80*Ni/30)); monotonicity is a lemma over those spec functions",
    },
}
