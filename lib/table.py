"""Harness and property tables."""

TRUSTED_BASE = [
    "platform port model /verif/contracts/v_port_model.c (executable specification of lltd_port_*; assumption A1)",
    "specification functions /verif/contracts/v_spec.h (written from the property statements)",
    "CBMC 6.11.0 (goto-cc, goto-instrument --dfcc, cbmc) and the selected SAT/SMT back end",
    "C semantics as modelled by CBMC for x86-64 LP64 little-endian",
]
ASSUMPTIONS = [
    "A1 port model: getters succeed with the configured value or fail leaving outputs untouched; each allocation and each transmit may fail independently",
    "A2 monotone clock; seconds and milliseconds derive from one instant; timestamps below 2^40 s",
    "A5 machine model x86-64 LP64 little-endian as laid out by goto-cc",
    "A7 CBMC / solver soundness; leaf helpers (htons, compareEthernetAddress, mac_equal...) verified inlined",
]

HARNESS = {}


def H(name, **kw):
    kw["name"] = name
    kw.setdefault("fn", "h_" + name)
    HARNESS[name] = kw
    return kw


# ---------------------------------------------------------------- C13
for n, f in [("band_update", "band_update_stats"), ("band_choose", "band_choose_hello_time"),
             ("band_dohello", "band_do_hello"), ("band_heard", "band_on_hello_received"),
             ("band_init", "band_init_stats")]:
    H(n, src="h_band.c", props=["C13"], enforce=[f], unwind=8)
HARNESS["band_dohello"]["replace"] = ["band_choose_hello_time"]
H("c13_monotone", src="h_band.c", props=["C13"], unwind=4, port_model=True, no_native=False)

PROPS = {
    "C13": {
        "harnesses": ["band_update", "band_choose", "band_dohello", "band_heard", "band_init", "c13_monotone"],
        "explanation": "band_* functions enforced against contracts whose postconditions are the closed forms of "
                       "min(NMAX, ALPHA*r^2) and max(6, ceil(80*Ni/30)); monotonicity is a lemma over those spec functions",
    },
}
