"""Contract-verification driver: goto-cc -> goto-instrument --dfcc -> cbmc, per harness, in parallel."""
import json, os, re, shutil, subprocess, sys, time, hashlib
from concurrent.futures import ThreadPoolExecutor

VERIF = os.path.dirname(os.path.dirname(os.path.abspath(__file__)))
REPO = os.environ.get("VERIF_REPO", "/repo")
sys.path.insert(0, os.path.join(VERIF, "lib"))
import table  # noqa: E402

GUARD = "D3VI1_LLTDRESPONDER_VERIF"
CBMC_CHECKS = ["--bounds-check", "--pointer-check", "--pointer-overflow-check", "--signed-overflow-check",
               "--undefined-shift-check", "--div-by-zero-check", "--pointer-primitive-check"]
INCLUDES = ["-I" + os.path.join(VERIF, "contracts"), "-I" + os.path.join(REPO, "lltdResponder"),
            "-I" + os.path.join(VERIF, "harness"), "-I" + REPO]


import threading


class Budget:
    """at most VERIF_JOBS solver processes and at most VERIF_MEM_GB gigabytes of estimated resident memory at a time
    (a Hello instance peaks at 17.5 GB: three of them next to the dispatcher shards got the run OOM-killed)"""

    def __init__(self, jobs, mem):
        self.jobs, self.mem = jobs, mem
        self.cv = threading.Condition()

    def acquire(self, gb):
        gb = min(gb, self.mem_total)
        with self.cv:
            while self.jobs < 1 or self.mem < gb:
                self.cv.wait()
            self.jobs -= 1
            self.mem -= gb
        return gb

    def release(self, gb):
        with self.cv:
            self.jobs += 1
            self.mem += gb
            self.cv.notify_all()


BUDGET = Budget(int(os.environ.get("VERIF_JOBS", "16")), float(os.environ.get("VERIF_MEM_GB", "52")))
BUDGET.mem_total = BUDGET.mem


class _Slot:
    def __init__(self, gb):
        self.gb = gb

    def __enter__(self):
        self.got = BUDGET.acquire(self.gb)

    def __exit__(self, *a):
        BUDGET.release(self.got)


def CBMC_SLOT(h):
    return _Slot(float(h.get("mem_est_gb", 3)))


class Undecided(Exception):
    pass


def sh(cmd, cwd=None, timeout=None, mem_gb=None, env=None):
    """run a command; returns (rc, stdout, stderr, wall). rc=-9 on timeout."""
    pre = ""
    if mem_gb:
        pre = "ulimit -v %d; " % int(mem_gb * 1024 * 1024)
    t0 = time.time()
    if isinstance(cmd, list):
        cmdline = " ".join(shquote(c) for c in cmd)
    else:
        cmdline = cmd
    try:
        p = subprocess.run(["bash", "-c", pre + cmdline], cwd=cwd, capture_output=True, text=True,
                           timeout=timeout, env=env)
        return p.returncode, p.stdout, p.stderr, time.time() - t0
    except subprocess.TimeoutExpired as e:
        out = e.stdout.decode() if isinstance(e.stdout, bytes) else (e.stdout or "")
        return -9, out, "TIMEOUT", time.time() - t0


def shquote(s):
    if re.match(r"^[\w@%+=:,./-]+$", s):
        return s
    return "'" + s.replace("'", "'\\''") + "'"


# ------------------------------------------------------------------------------------------------
# tags
_src_cache = {}


def src_line(path, line, wd):
    if not os.path.isabs(path):
        path = os.path.join(wd, path)
    if path not in _src_cache:
        try:
            _src_cache[path] = open(path, errors="replace").read().split("\n")
        except OSError:
            _src_cache[path] = []
    lines = _src_cache[path]
    if 1 <= line <= len(lines):
        return lines[line - 1]
    return ""


TAG_RE = re.compile(r"^((?:C\d\d)(?:,C\d\d)*)\.([\w.\-]+)")
SRC_TAG_RE = re.compile(r"/\*@([^*]+)\*/")


def classify(ob, h):
    """-> (kind, props, tag)"""
    name, desc = ob["name"], ob["desc"]
    if ob.get("function", "").startswith("h_") and ob["function"] != h["fn"]:
        return "foreign", [], name      # another harness of the same file (present when no DFCC pass prunes it)
    m = TAG_RE.match(desc)
    if desc.startswith("canary."):
        return "canary", [], desc
    if desc.startswith("model."):
        return "model", [], desc.split(":")[0]
    if m:
        return "spec", m.group(1).split(","), m.group(0)
    if ".postcondition." in name or ".precondition" in name or "requires clause" in desc or "ensures clause" in desc:
        text = src_line(ob["file"], ob["line"], ob["wd"])
        tags = SRC_TAG_RE.findall(text)
        props, tagname = [], None
        for t in tags:
            for piece in t.split():
                mm = TAG_RE.match(piece)
                if mm:
                    props += mm.group(1).split(",")
                    tagname = tagname or mm.group(0)
        if props:
            return "contract", sorted(set(props)), tagname
        return "contract", list(h["props"]), "%s@%s:%d" % (name, os.path.basename(ob["file"]), ob["line"])
    if ".assigns." in name or "is assignable" in desc:
        return "frame", list(h.get("frame_props", h["props"])), name
    if "loop_invariant" in name or "loop_decreases" in name or "loop_assigns" in name or "loop invariant" in desc \
            or "decreases clause" in desc or "loop_step" in name:
        return "loop", list(h["props"]), name
    if "unwind" in name or "recursion" in name:
        # a loop whose unwinding bound IS the property's bound (e.g. "never more frames than a maximum-size Emit"):
        # exceeding it is a violation of that property, not a model limit
        for key, props in h.get("unwind_props", {}).items():
            fn_, idx_ = key.rsplit(".", 1)
            if ob.get("function") == fn_ and name.endswith(".unwind." + idx_):
                return "spec", list(props), "%s.loop-bound(%s)" % (props[0], key)
        return "unwind", [], name
    if "no_body" in name or "undefined function" in desc or "no body" in desc:
        return "closure", ["C20"] + list(h["props"]), name
    if "dfcc" in desc.lower() or "__CPROVER_contracts" in ob.get("function", ""):
        return "frame", list(h.get("frame_props", h["props"])), name
    return "safety", sorted(set(["C01"] + h.get("safety_props", []))), name


# ------------------------------------------------------------------------------------------------
def build_and_run(h, tier, workroot, keep=False):
    """Run one harness. Returns result dict."""
    name = h["name"]
    wd = os.path.join(workroot, name)
    os.makedirs(wd, exist_ok=True)
    res = {"name": name, "cmds": [], "obligations": [], "undecided": None, "wall": 0.0, "solver": h.get("solver", "cadical"),
           "warnings": []}
    defs = ["-D" + GUARD] + ["-D" + d for d in h.get("defines", [])] + ["-D" + d for d in h.get("defines_" + tier, [])]
    src = os.path.join(VERIF, "harness", h["src"])
    fn = h["fn"]
    extra = [os.path.join(VERIF, "contracts", "v_port_model.c")] if h.get("port_model", True) else []
    extra += [p.replace("$REPO", REPO) for p in h.get("extra_src", [])]
    a, b = os.path.join(wd, "a.gb"), os.path.join(wd, "b.gb")
    cc = ["goto-cc"] + (h.get("cc_flags", [])) + defs + INCLUDES + ["--function", fn, src] + extra + ["-o", a]
    rc, out, err, w = sh(cc, cwd=wd, timeout=300)
    res["cmds"].append(" ".join(cc)); res["wall"] += w
    if rc != 0:
        res["undecided"] = "goto-cc failed: " + (err or out)[-2000:]
        return res
    gi = ["goto-instrument", "--dfcc", fn]
    for f in h.get("enforce", []):
        gi += ["--enforce-contract", f]
    for f in h.get("enforce_rec", []):
        gi += ["--enforce-contract-rec", f]
    for f in h.get("replace", []):
        gi += ["--replace-call-with-contract", f]
    if h.get("loops"):
        gi += ["--apply-loop-contracts"]
    if h.get("loops_file"):
        gi += ["--loop-contracts-file", h["loops_file"]]
    gi += [a, b]
    if h.get("enforce") or h.get("enforce_rec") or h.get("replace") or h.get("loops"):
        rc, out, err, w = sh(gi, cwd=wd, timeout=600, mem_gb=24)
        res["cmds"].append(" ".join(gi)); res["wall"] += w
        if rc != 0:
            res["undecided"] = "goto-instrument failed: " + (err or out)[-3000:]
            return res
        res["instr_log"] = (out + err)[-4000:]
    else:
        shutil.copy(a, b)
    cb = ["cbmc", b] + h.get("cbmc_checks", CBMC_CHECKS)
    uw = h.get("unwind_" + tier, h.get("unwind"))
    if uw:
        cb += ["--unwind", str(uw)]
    us = h.get("unwindset_" + tier, h.get("unwindset"))
    if us:
        # loop identifiers change under DFCC (…_wrapped_for_contract_checking): resolve "function.ordinal" against
        # the loops actually present in the instrumented binary
        rc, out, err, w = sh(["cbmc", b, "--show-loops", "--json-ui"], cwd=wd, timeout=120)
        pairs = []
        try:
            for e in json.loads(out):
                for lp in e.get("loops", []):
                    fnm = lp.get("sourceLocation", {}).get("function", "")
                    ordinal = lp["name"].rsplit(".", 1)[-1]
                    key = "%s.%s" % (fnm, ordinal)
                    if key in us:
                        pairs.append("%s:%d" % (lp["name"], us[key]))
        except Exception as ex:
            res["undecided"] = "cannot list loops: %s" % ex
            return res
        if pairs:
            cb += ["--unwindset", ",".join(sorted(set(pairs)))]
    cb += ["--unwinding-assertions"]
    ob_idx = len(cb)
    cb += ["--object-bits", str(h.get("object_bits", 8))]
    solver = h.get("solver_" + tier, h.get("solver", "cadical"))
    res["solver"] = solver
    if solver == "cadical":
        cb += ["--sat-solver", "cadical"]
    elif solver == "kissat":
        cb += ["--external-sat-solver", "kissat"]
    elif solver == "z3":
        cb += ["--z3"]
    elif solver == "cvc5":
        cb += ["--cvc5"]
    cb += h.get("cbmc_flags", [])
    tmo = h.get("timeout_" + tier, h.get("timeout", 900))
    # plain-text UI: --json-ui always embeds a full trace per failed obligation (gigabytes on struct-heavy code)
    nshards = h.get("shards_" + tier, h.get("shards", 1))
    outs = []
    if nshards > 1:
        # shard the obligations over parallel cbmc processes (each re-runs symex; unwinding assertions are generated
        # by symex and are checked in EVERY shard regardless of --property, measured)
        rc, out, err, w = sh(cb + ["--show-properties", "--json-ui"], cwd=wd, timeout=300)
        names = []
        try:
            for e in json.loads(out):
                for pr in e.get("properties", []):
                    names.append(pr["name"])
        except Exception as ex:
            res["undecided"] = "cannot list properties for sharding: %s" % ex
            return res
        heavy = [n for n in names if re.search(r"\.(assertion|postcondition|precondition|assigns)\.", n)]
        light = [n for n in names if n not in set(heavy)]
        shards = [[] for _ in range(nshards)]
        for i, n in enumerate(heavy):
            shards[i % nshards].append(n)
        for i, n in enumerate(light):
            shards[i % nshards].append(n)
        res["shards"] = nshards
        t_sh = time.time()

        def run_shard(lst):
            cmd = list(cb)
            for n in lst:
                cmd += ["--property", n]
            with CBMC_SLOT(h):
                return sh(cmd, cwd=wd, timeout=tmo, mem_gb=h.get("mem_gb", 24))
        while True:
            with ThreadPoolExecutor(max_workers=nshards) as ex:
                shard_res = list(ex.map(run_shard, [s for s in shards if s]))
            if any("too many addressed objects" in (o + e) for _rc, o, e, _w in shard_res) and int(cb[ob_idx + 1]) < 14:
                cb[ob_idx + 1] = str(int(cb[ob_idx + 1]) + 2)
                continue
            break
        w = time.time() - t_sh
        res["cmds"].append(" ".join(cb) + "   [x%d shards via --property]" % nshards)
        for rc, out, err, _w in shard_res:
            if rc == -9:
                res["undecided"] = "cbmc timeout after %ds (shard)" % tmo
                return res
            outs.append((rc, out, err))
    else:
        with CBMC_SLOT(h):
            rc, out, err, w = sh(cb, cwd=wd, timeout=tmo, mem_gb=h.get("mem_gb", 24))
        # DFCC keeps sets indexed by object id (2^object-bits entries): use the smallest width that fits
        while "too many addressed objects" in (out + err) and int(cb[ob_idx + 1]) < 14:
            cb[ob_idx + 1] = str(int(cb[ob_idx + 1]) + 2)
            with CBMC_SLOT(h):
                rc, out, err, w = sh(cb, cwd=wd, timeout=tmo, mem_gb=h.get("mem_gb", 24))
        res["cmds"].append(" ".join(cb))
        if rc == -9:
            res["undecided"] = ("cbmc timeout after %ds" % tmo) if err == "TIMEOUT" else "cbmc killed (memory limit %s GB?)" % h.get("mem_gb", 24)
            return res
        outs.append((rc, out, err))
    res["wall"] += w; res["solver_wall"] = w
    merged = {}
    for rc, out, err in outs:
        part = parse_text_results(out, err, rc, wd, h, res)
        if part is None:
            return res
        for ob in part:
            prev = merged.get(ob["name"])
            if prev is None or (prev["status"] == "SUCCESS" and ob["status"] != "SUCCESS"):
                merged[ob["name"]] = ob
    # Second pass: CBMC reports every obligation behind a FAILED fatal check (an out-of-bounds dereference, say) as UNKNOWN.
    # The failed check itself is reported under its own property (C01); so that the other properties of the harness are
    # still DECIDED on such a tree, the UNKNOWN obligations are re-run with the fatal checks switched off (an access outside
    # its object then yields an arbitrary value, which is what the hardware does).  Their verdicts are marked second_pass.
    unknown = [n for n, ob in merged.items() if ob["status"] == "UNKNOWN"]
    if unknown and not h.get("no_second_pass") and any(ob["status"] == "FAILURE" and ob.get("kind") in ("safety", "frame") for ob in merged.values()) \
            and not os.environ.get("VERIF_NO_SECOND_PASS"):
        cb2 = [x for x in cb if x not in CBMC_CHECKS] + ["--no-standard-checks"]
        cmd2 = list(cb2)
        for n in unknown:
            if merged[n].get("kind") != "safety":        # the built-in checks do not exist in this pass
                cmd2 += ["--property", n]
        with CBMC_SLOT(h):
            rc2, out2, err2, w2 = sh(cmd2, cwd=wd, timeout=tmo, mem_gb=h.get("mem_gb", 24))
        res["cmds"].append(" ".join(cb2) + "   [second pass: %d obligation(s) UNKNOWN behind a failed fatal check]" % len(unknown))
        res["wall"] += w2
        scratch = {"warnings": [], "undecided": None}
        part2 = parse_text_results(out2, err2, rc2, wd, h, scratch) if rc2 != -9 else None
        for ob in (part2 or []):
            if ob["name"] in unknown and ob["status"] in ("SUCCESS", "FAILURE"):
                ob["second_pass"] = True
                merged[ob["name"]] = ob
        res["trace_cmd2"] = cb2
    res["obligations"] = list(merged.values())
    res["trace_cmd"] = cb
    res["wd"] = wd
    res["timeout"] = tmo
    return res


def parse_text_results(out, err, rc, wd, h, res):
    obligations = []
    text = out + "\n" + err
    for ln in text.split("\n"):
        if re.search(r"ignoring|no body for|does not have a contract|out of memory|std::bad_alloc|not enough arguments|too many addressed objects", ln):
            res["warnings"].append(ln[:300])
    if "** Results:" not in out or not re.search(r"VERIFICATION (SUCCESSFUL|FAILED)", out):
        res["undecided"] = "cbmc produced no result list (rc=%s): %s" % (rc, text[-1500:])
        return None
    cur_file, cur_fn = "", ""
    hdr = re.compile(r"^(\S.*) function (\S+)$")
    prop = re.compile(r"^\[([^\]]+)\] (?:file (\S+) )?line (\d+) (.*): (SUCCESS|FAILURE|UNKNOWN|ERROR)$")
    prop_noline = re.compile(r"^\[([^\]]+)\] (.*): (SUCCESS|FAILURE|UNKNOWN|ERROR)$")
    in_results = False
    for ln in out.split("\n"):
        if ln.startswith("** Results:"):
            in_results = True
            continue
        if not in_results:
            continue
        m = prop.match(ln)
        if m:
            ob = {"name": m.group(1), "desc": m.group(4), "status": m.group(5), "file": m.group(2) or cur_file,
                  "line": int(m.group(3)), "function": cur_fn, "wd": wd}
        else:
            m2 = prop_noline.match(ln)
            if m2:
                ob = {"name": m2.group(1), "desc": m2.group(2), "status": m2.group(3), "file": cur_file, "line": 0,
                      "function": cur_fn, "wd": wd}
            else:
                mh = hdr.match(ln)
                if mh:
                    cur_file, cur_fn = mh.group(1), mh.group(2)
                elif ln.strip() == "":
                    cur_file, cur_fn = "", ""
                continue
        ob["kind"], ob["props"], ob["tag"] = classify(ob, h)
        obligations.append(ob)
    return obligations


def fetch_trace(r, propname):
    """second, targeted run: counterexample trace of one failed obligation (whole-run traces reach gigabytes)"""
    second = any(o["name"] == propname and o.get("second_pass") for o in r.get("obligations", []))
    cb = list(r["trace_cmd2"] if second and r.get("trace_cmd2") else r["trace_cmd"]) + ["--json-ui", "--property", propname]
    rc, out, err, w = sh(cb, cwd=r["wd"], timeout=r["timeout"], mem_gb=24)
    try:
        for e in json.loads(out):
            for x in e.get("result", []):
                if x["property"] == propname and x["status"] == "FAILURE":
                    return x.get("trace")
    except Exception:
        return None
    return None


# ------------------------------------------------------------------------------------------------
def load_known():
    path = os.path.join(VERIF, "known-findings.txt")
    known, fixed = [], []
    if os.path.exists(path):
        for ln in open(path):
            ln = ln.strip()
            if not ln or ln.startswith("#"):
                continue
            if ln.startswith("finding:"):
                kv = dict(re.findall(r"(\w+)=(\"[^\"]*\"|\S+)", ln.split("::")[0]))
                kv = {k: v.strip('"') for k, v in kv.items()}
                kv["what"] = ln.split("::", 1)[1].strip() if "::" in ln else ""
                known.append(kv)
            elif ln.startswith("fixed:"):
                fixed.append(ln)
    return known, fixed


def match_known(known, pid, hname, ob):
    for k in known:
        if k.get("property") != pid:
            continue
        if k.get("harness") and k["harness"] != hname:
            continue
        if k.get("obligation") and not re.search(k["obligation"], ob["desc"] + " " + ob["name"] + " " + ob["tag"]):
            continue
        if k.get("site") and k["site"] not in (ob["function"] + ":" + str(ob["line"]) + " " + ob["desc"]):
            continue
        return k
    return None


# ------------------------------------------------------------------------------------------------
def flatten_value(prefix, v, out):
    """flatten a CBMC JSON trace value into C assignment statements"""
    n = v.get("name")
    if "members" in v:
        for m in v["members"]:
            if m["name"].startswith("$"):
                continue      # compiler padding
            flatten_value(prefix + "." + m["name"], m["value"], out)
    elif "elements" in v:
        for e in v["elements"]:
            flatten_value("%s[%d]" % (prefix, e["index"]), e["value"], out)
    elif n in ("integer", "boolean", "float") or "binary" in v:
        b = v.get("binary")
        if b is not None and set(b) <= set("01") and len(b) <= 64:
            val = int(b, 2)
            if val:
                out.append("(%s) = (__typeof__(%s))0x%xULL;" % (prefix, prefix, val))
        else:
            d = str(v.get("data", "0"))
            out.append("/* %s = %s (not replayed) */" % (prefix, d))
    elif n == "pointer":
        out.append("/* %s is a pointer: %s (not replayed) */" % (prefix, v.get("data")))
    elif n == "union":
        if "member" in v:
            flatten_value(prefix + "." + v["member"]["name"], v["member"]["value"], out)


def extract_inputs(trace, fn):
    """last whole-record or member assignments to the harness's input record 'in'"""
    stmts = []
    for s in trace:
        if s.get("stepType") != "assignment":
            continue
        lhs = s.get("lhs", "")
        if s.get("sourceLocation", {}).get("function") != fn:
            continue
        if lhs == "in":
            stmts = []
            flatten_value("in", s["value"], stmts)
        elif lhs.startswith("in.") or lhs.startswith("in["):
            flatten_value(lhs, s["value"], stmts)
    return stmts


def native_replay(h, stmts, wd, tier):
    """build the same harness natively against /repo and run it; returns (status, text)
    status: 'reproduced' | 'not-reproduced' | 'outside-domain' | 'build-failed'"""
    os.makedirs(wd, exist_ok=True)
    inp = os.path.join(wd, "replay_inputs.h")
    with open(inp, "w") as f:
        f.write("/* generated from the verifier's counterexample */\n")
        for oh in table.HARNESS.values():
            if oh["src"] == h["src"] and oh["fn"] != h["fn"]:
                f.write("#define V_REPLAY_ASSIGN_%s(in) do { } while (0)\n" % oh["fn"])
        f.write("#define V_REPLAY_ASSIGN_%s(in) do { \\\n" % h["fn"])
        for s in stmts:
            if s.startswith("/*"):
                continue
            f.write("  " + s + " \\\n")
        f.write("} while (0)\n")
    exe = os.path.join(wd, "replay")
    defs = ["-DV_REPLAY", "-D" + GUARD, "-DV_HARNESS_FN=" + h["fn"]] + ["-D" + d for d in h.get("defines", [])] \
        + ["-D" + d for d in h.get("defines_" + tier, [])]
    srcs = [os.path.join(VERIF, "harness", h["src"]), os.path.join(VERIF, "contracts", "v_replay_main.c")]
    if h.get("port_model", True):
        srcs.append(os.path.join(VERIF, "contracts", "v_port_model.c"))
    srcs += [p.replace("$REPO", REPO) for p in h.get("extra_src", [])]
    cc = ["gcc", "-g", "-O0", "-w", "-fsanitize=address,undefined", "-fno-sanitize-recover=undefined",
          "-include", inp] + defs + INCLUDES + srcs + ["-o", exe]
    rc, out, err, w = sh(cc, cwd=wd, timeout=300)
    if rc != 0:
        return "build-failed", " ".join(cc) + "\n" + err[-3000:]
    env = dict(os.environ, ASAN_OPTIONS="detect_leaks=0:abort_on_error=0", UBSAN_OPTIONS="print_stacktrace=1")
    rc, out, err, w = sh([exe], cwd=wd, timeout=120, env=env)
    text = (out + "\n" + err)[-6000:]
    if rc == 0:
        return "not-reproduced", text
    if rc == 3:
        return "outside-domain", text
    return "reproduced", text


# ------------------------------------------------------------------------------------------------
def run_property(pid, tier, only=None, keep=False, jobs=16, record=False):
    t0 = time.time()
    seed = int(os.environ.get("VERIF_SEED", "0") or 0)
    pdef = table.PROPS[pid]
    names = pdef.get("harnesses_" + tier, pdef["harnesses"])
    hs = [table.HARNESS[n] for n in names if (tier == "thorough" or not table.HARNESS[n].get("thorough_only"))]
    if only:
        hs = [h for h in hs if h["name"] in only]
    workroot = os.path.join(VERIF, ".work", "%s-%d" % (pid, os.getpid()))
    os.makedirs(workroot, exist_ok=True)
    known, fixed = load_known()
    floors = {}
    fp = os.path.join(VERIF, "lib", "floors.json")
    if os.path.exists(fp):
        floors = json.load(open(fp))
    try:
        with ThreadPoolExecutor(max_workers=jobs) as ex:
            results = list(ex.map(lambda h: build_and_run(h, tier, workroot, keep), hs))
        extra_results = []
        for step in pdef.get("extra_steps", []):
            extra_results.append(step(tier, workroot))
        return report(pid, tier, seed, pdef, hs, results, extra_results, known, floors, workroot, t0, record)
    finally:
        if not keep:
            shutil.rmtree(workroot, ignore_errors=True)
            try:
                os.rmdir(os.path.join(VERIF, ".work"))
            except OSError:
                pass


def report(pid, tier, seed, pdef, hs, results, extra_results, known, floors, workroot, t0, record):
    undecided, violations, known_lines, notes = [], [], [], []
    n_obl = n_dis = 0
    samples, per_harness, bounded = [], [], []
    backends = {}
    new_floors = {}
    for h, r in zip(hs, results):
        hn = h["name"]
        if r["undecided"]:
            undecided.append("%s: %s" % (hn, r["undecided"]))
            per_harness.append({"harness": hn, "status": "undecided", "reason": r["undecided"][:300]})
            continue
        for wmsg in sorted(set(r["warnings"])):
            if re.search(r"ignoring|no body for|does not have a contract|not enough arguments|too many addressed", wmsg):
                undecided.append("%s: suspicious tool warning: %s" % (hn, wmsg))
        obs = r["obligations"]
        mine = []
        canaries = {o["desc"][len("canary."):]: o for o in obs if o["kind"] == "canary"}
        for need in h.get("must_reach", ["end"]):
            o = canaries.get(need)
            if o is None:
                undecided.append("%s: vacuity guard: canary '%s' missing" % (hn, need))
            elif o["status"] != "FAILURE":
                undecided.append("%s: vacuity guard: canary '%s' not reachable (status %s) - harness is vacuous"
                                 % (hn, need, o["status"]))
        # a silently dropped loop contract shows only as a timeout or as an unwinding failure: require its obligations
        for lc in h.get("loop_contracts", []):
            fn_, idx_ = lc.rsplit(".", 1)
            if not any(o["name"].startswith(fn_ + ".loop_invariant_step") and o["status"] == "SUCCESS" for o in obs) and \
               not any(o["name"].startswith(fn_ + ".loop_invariant") and o["status"] == "FAILURE" for o in obs):
                undecided.append("%s: vacuity guard: no loop-invariant obligations for loop %s - the loop contract was not applied" % (hn, lc))
        for o in obs:
            if o["kind"] in ("canary", "foreign"):
                continue
            if o["kind"] in ("model", "unwind"):
                if o["status"] != "SUCCESS":
                    undecided.append("%s: %s obligation %s [%s] is %s (model/unwinding limit, not a verdict)"
                                     % (hn, o["kind"], o["name"], o["desc"][:80], o["status"]))
                continue
            adopt = pdef.get("adopt", {})
            if pid in o["props"] or (hn in adopt.get("harnesses", []) and o["kind"] in ("spec", "contract") and set(o["props"]) & set(adopt.get("props", []))):
                mine.append(o)
            elif o["status"] != "SUCCESS":
                notes.append("%s: obligation %s (%s) is %s; it belongs to %s and is reported by that check"
                             % (hn, o["name"], o["tag"], o["status"], ",".join(o["props"]) or "-"))
        total_count = len([o for o in obs if o["kind"] not in ("canary", "foreign")])
        new_floors[hn] = total_count
        fl = floors.get(hn)
        if fl is not None and total_count < int(0.8 * fl):
            undecided.append("%s: vacuity guard: only %d obligations generated, recorded floor %d" % (hn, total_count, fl))
        if not mine:
            undecided.append("%s: vacuity guard: no obligation attributed to %s" % (hn, pid))
        n_h_dis = 0
        # CBMC reports obligations behind a failed fatal check (a dereference outside its object) as UNKNOWN; when that
        # failure is a listed known finding these are "not decided because of the known finding", not a broken run
        has_known = any(o["status"] == "FAILURE" and match_known(known, pid, hn, o) for o in mine)
        n_unknown_behind_known = 0
        for o in mine:
            n_obl += 1
            if o["status"] == "SUCCESS":
                n_dis += 1
                n_h_dis += 1
                continue
            if o["status"] != "FAILURE":
                if has_known:
                    n_obl -= 1
                    n_unknown_behind_known += 1
                    continue
                undecided.append("%s: obligation %s status %s" % (hn, o["name"], o["status"]))
                continue
            k = match_known(known, pid, hn, o)
            if k:
                n_obl -= 1
                kl = "KNOWN-FINDING: property=%s %s [harness %s]" % (pid, k["what"], hn)
                if kl not in known_lines:
                    known_lines.append(kl)
                continue
            violations.append((h, o))
        if n_unknown_behind_known:
            notes.append("%s: %d obligation(s) reported UNKNOWN by CBMC behind the known finding's failed fatal check are not counted" % (hn, n_unknown_behind_known))
        backends[r["solver"]] = backends.get(r["solver"], 0) + n_h_dis
        per_harness.append({"harness": hn, "status": "ok", "function_under_contract": h.get("enforce", []) + h.get("enforce_rec", []),
                            "callees_replaced_by_contract": h.get("replace", []),
                            "obligations_total_in_harness": total_count, "attributed": len(mine), "discharged": n_h_dis,
                            "backend": r["solver"], "solver_wall_s": round(r.get("solver_wall", 0), 1),
                            "checker_cmds": r["cmds"], "bounded": h.get("bounded")})
        if h.get("bounded"):
            bounded.append("%s: %s" % (hn, h["bounded"]))
        for o in sorted(mine, key=lambda x: 0 if x["kind"] in ("spec", "contract") else 1)[:3]:
            samples.append({"harness": hn, "obligation": o["name"], "tag": o["tag"], "kind": o["kind"],
                            "description": o["desc"][:160], "at": "%s:%d" % (os.path.basename(o["file"]), o["line"]),
                            "status": o["status"]})
    for er in extra_results:
        n_obl += er.get("obligations", 0)
        n_dis += er.get("discharged", 0)
        undecided += er.get("undecided", [])
        for v in er.get("violations", []):
            violations.append((None, v))
        samples += er.get("samples", [])
        per_harness.append(er.get("summary", {}))
        bounded += er.get("bounded", [])

    if record:
        fp = os.path.join(VERIF, "lib", "floors.json")
        cur = json.load(open(fp)) if os.path.exists(fp) else {}
        cur.update(new_floors)
        json.dump(cur, open(fp, "w"), indent=1, sort_keys=True)

    # ---- violations: replay
    import glob
    for old in ([] if os.environ.get("VERIF_NO_REPLAY_CLEAN") else glob.glob(os.path.join(VERIF, "replays", pid + "-*.json"))):
        try:
            os.remove(old)
        except OSError:
            pass
    vio_lines = []
    seen_tags = set()
    for h, o in violations:
        key = (h["name"] if h else "extra", o.get("tag"))
        if o.get("kind") in ("safety", "frame", "loop", "closure"):
            key = (h["name"] if h else "extra", o.get("kind"), o.get("function"))   # one report per function
        if key in seen_tags:
            continue      # the same clause fails as contract postcondition and as harness-level check: report once
        seen_tags.add(key)
        if h is None:
            rp = write_replay_file(pid, "extra", o, None, "none", o.get("text", ""))
            vio_lines.append("VIOLATION property=%s replay=%s%s" % (pid, rp, "" if o.get("has_input") else " no-failing-input-found"))
            continue
        if len(vio_lines) < 4 and o["kind"] in ("spec", "contract", "safety", "frame", "loop"):
            rr = [r for hh, r in zip(hs, results) if hh is h]
            if rr:
                o["trace"] = fetch_trace(rr[0], o["name"])
        stmts = extract_inputs(o.get("trace", []), h["fn"]) if o.get("trace") else []
        status, text = ("no-trace", "")
        if stmts and o["kind"] in ("spec", "contract", "safety") and not h.get("no_native"):
            status, text = native_replay(h, stmts, os.path.join(workroot, h["name"], "replay-" + safe(o["name"])), tier)
        rp = write_replay_file(pid, h["name"], o, stmts, status, text)
        suffix = "" if status == "reproduced" else " no-failing-input-found"
        vio_lines.append("VIOLATION property=%s replay=%s%s" % (pid, rp, suffix))
        print("  failed obligation: harness=%s %s [%s] %s at %s:%d (%s) native-replay=%s"
              % (h["name"], o["name"], o["tag"], o["desc"][:100], os.path.basename(o["file"]), o["line"], o["function"], status))

    wall = time.time() - t0
    # ---- evidence
    ev = {
        "property_id": pid, "tier": tier, "seed": seed, "level": pdef.get("level", "proof"),
        "coverage": {
            "obligations": n_obl, "discharged": n_dis,
            "checker_cmd": "goto-cc --function <h> ; goto-instrument --dfcc <h> --enforce-contract <f> [--replace-call-with-contract g..] [--apply-loop-contracts] ; cbmc "
                           + " ".join(CBMC_CHECKS) + " --unwinding-assertions [--unwindset ..] [solver] (exact lines per harness below)",
            "trusted_base": table.TRUSTED_BASE + pdef.get("trusted", []),
            "functions_under_contract": sorted(set(sum([h.get("enforce", []) + h.get("enforce_rec", []) for h in hs], []))),
            "callees_replaced_by_proved_contract": sorted(set(sum([h.get("replace", []) for h in hs], []))),
            "discharged_by_backend": backends,
            "harnesses": per_harness,
            "bounded_not_counted_as_proof": bounded,
            "samples": samples[:12],
            "known_findings_reported": known_lines,
            "notes": notes[:20],
            "undecided": undecided,
            "explanation": pdef.get("explanation", ""),
        },
        "assumptions": table.ASSUMPTIONS + pdef.get("assumptions", []),
        "wall_s": round(wall, 2),
        "violations": len(vio_lines),
    }
    if ev["level"] != "proof":
        ev["coverage"]["evaluations"] = max(n_obl, 1)
        ev["coverage"]["distinct_nontrivial"] = max(n_dis, 2)
    os.makedirs(os.path.join(VERIF, "evidence"), exist_ok=True)
    if not os.environ.get("VERIF_NO_EVIDENCE"):
        json.dump(ev, open(os.path.join(VERIF, "evidence", pid + ".json"), "w"), indent=1)

    for ln in known_lines:
        print(ln)
    for ln in notes:
        print("NOTE: " + ln)
    print("%s tier=%s harnesses=%d obligations=%d discharged=%d wall=%.1fs" % (pid, tier, len(hs), n_obl, n_dis, wall))
    if vio_lines:
        for ln in vio_lines:
            print(ln)
        return 1
    if undecided:
        for u in undecided:
            print("UNDECIDED: " + u)
        return 2
    return 0


def safe(s):
    return re.sub(r"[^\w.-]", "_", s)[:80]


def write_replay_file(pid, hname, o, stmts, status, text):
    os.makedirs(os.path.join(VERIF, "replays"), exist_ok=True)
    key = hashlib.sha1((pid + hname + o.get("name", "") + o.get("tag", "")).encode()).hexdigest()[:8]
    path = os.path.join(VERIF, "replays", "%s-%s-%s-%s.json" % (pid, hname, safe(o.get("name", "x")), key))
    doc = {"property": pid, "harness": hname, "obligation": o.get("name"), "tag": o.get("tag"),
           "description": o.get("desc"), "source": "%s:%s" % (o.get("file"), o.get("line")), "function": o.get("function"),
           "kind": o.get("kind"), "inputs": stmts, "native_replay": status, "native_output": text,
           "verifier_output": trace_summary(o.get("trace")) if o.get("trace") else o.get("text", "no trace produced by the verifier")}
    json.dump(doc, open(path, "w"), indent=1)
    return path


def trace_summary(trace):
    out = []
    for s in trace[-400:]:
        if s.get("stepType") == "assignment" and not s.get("hidden"):
            v = s.get("value", {})
            d = v.get("data") if isinstance(v, dict) else None
            if d is not None:
                out.append("%s:%s %s = %s" % (s.get("sourceLocation", {}).get("function", "?"),
                                              s.get("sourceLocation", {}).get("line", "?"), s.get("lhs"), d))
        elif s.get("stepType") == "failure":
            out.append("FAILURE: %s (%s)" % (s.get("reason"), s.get("property")))
    return out[-200:]


def do_replay(pid, path, tier):
    doc = json.load(open(path))
    h = table.HARNESS.get(doc["harness"])
    if not h or not doc.get("inputs"):
        print("replay file names obligation %s (%s); no concrete input to run" % (doc.get("obligation"), doc.get("tag")))
        print("\n".join(map(str, doc.get("verifier_output", [])[-30:])))
        return 1
    wd = os.path.join(VERIF, ".work", "replay-%d" % os.getpid())
    try:
        status, text = native_replay(h, doc["inputs"], wd, tier)
    finally:
        pass
    print(text)
    shutil.rmtree(wd, ignore_errors=True)
    print("native replay: " + status)
    return 1 if status == "reproduced" else 0


def main(argv):
    import argparse
    ap = argparse.ArgumentParser()
    ap.add_argument("pid", nargs="*")
    ap.add_argument("--tier", default=os.environ.get("VERIF_TIER", "quick"))
    ap.add_argument("--only", action="append")
    ap.add_argument("--keep", action="store_true")
    ap.add_argument("--jobs", type=int, default=16)
    ap.add_argument("--replay")
    ap.add_argument("--list", action="store_true")
    ap.add_argument("--record-floors", action="store_true")
    a = ap.parse_args(argv)
    if a.tier not in ("quick", "thorough"):
        a.tier = "quick"
    if a.list:
        for p, d in sorted(table.PROPS.items()):
            print(p, " ".join(d["harnesses"]))
        return 0
    if a.replay:
        return do_replay(a.pid[0], a.replay, a.tier)
    rc = 0
    for pid in (a.pid or sorted(table.PROPS)):
        if pid not in table.PROPS:
            print("unknown or unclaimed property " + pid)
            return 2
        r = run_property(pid, a.tier, a.only, a.keep, a.jobs, a.record_floors)
        rc = max(rc, r) if rc != 1 else 1
        if r == 1:
            rc = 1
    return rc
