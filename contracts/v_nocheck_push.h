/* specification code: CBMC's implicit safety checks are generated for the code under proof only; the
 * specification states pointer validity explicitly (V_RW_OK / V_R_OK) where it matters */
#ifndef V_REPLAY
#pragma CPROVER check push
#pragma CPROVER check disable "pointer"
#pragma CPROVER check disable "bounds"
#pragma CPROVER check disable "pointer-primitive"
#pragma CPROVER check disable "pointer-overflow"
#pragma CPROVER check disable "signed-overflow"
#pragma CPROVER check disable "conversion"
#pragma CPROVER check disable "undefined-shift"
#endif
