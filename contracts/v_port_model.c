/* v_port_model.c — the platform port as an executable specification.
 *
 * This is the trusted environment model (assumption A1).  It is compiled (a) by goto-cc into every
 * verification harness, where DFCC instruments it like any other code and V_REQUIRE lines become the
 * call-site obligations of the port API, and (b) natively for counterexample replay.  Every outcome is
 * a function of g_cfg and the ledger counters (see v_ghost.h).
 *
 * Define V_TXCAP=<n> to enable the truncated-object abstraction for the MTU-sized transmit buffer
 * (DESIGN 3.4): allocations larger than V_SMALL_MAX return an object of exactly V_TXCAP bytes.
 */
#include "v_harness.h"
#include "v_spec.h"
#include "lltdPort.h"

#ifdef V_REPLAY
#include <stdlib.h>
#include <string.h>
#else
void *malloc(size_t);
void free(void *);
void *memset(void *, int, size_t);
void *memcpy(void *, const void *, size_t);
#endif

struct v_cfg g_cfg;
struct v_led g_led;
struct v_req g_req;
struct v_hc g_hc;
size_t g_k;
size_t g_j;
void *g_ctx;

#define V_SMALL_MAX 128u
#if defined(V_TX_STATIC) && defined(V_TXCAP) && !defined(V_REPLAY)
static uint8_t v_txbuf[V_TXCAP];
#endif

void v_env_reset(void) {
#ifdef V_REPLAY
    memset(&g_led, 0, sizeof(g_led));
    memset(&g_req, 0, sizeof(g_req));
#else
    struct v_led z = {0};
    g_led = z;
    struct v_req zr = {0};
    g_req = zr;
#endif
    g_k = 0; g_j = 0;
    g_led.clk_s = g_cfg.clk_s0;
    g_led.clk_ms_frac = g_cfg.clk_frac0;
    g_led.clk_ms = g_led.clk_s * 1000u + g_led.clk_ms_frac;
}

/* ---- clock: pure reads of the instant of this call (A2) ------------------------------------------- */
uint64_t lltd_port_monotonic_seconds(void) {
    return g_led.clk_s;
}

uint64_t lltd_port_monotonic_milliseconds(void) {
    return g_led.clk_ms;
}

/* ---- memory ------------------------------------------------------------------------------------- */
void *lltd_port_malloc(size_t size) {
    unsigned k = g_led.allocs & 31u;
    g_led.allocs++;
    if ((g_cfg.alloc_fail_mask >> k) & 1u) {
        return NULL;
    }
    V_REQUIRE("port.malloc.size-nonzero", size > 0);
    void *p;
#if defined(V_TXOVER) && !defined(V_REPLAY)
    /* over-sized object abstraction (symbolic small MTUs): the transmit buffer object has the constant size V_TXOVER >= every
     * admissible request, the REQUESTED size is recorded, and every write of the port into it is checked against the request
     * (lltd_port_memcpy / lltd_port_memset below, transmit length in the oracle) - CBMC's own bounds check cannot see it */
    if (size >= 40) {
        V_REQUIRE("model.txover: request not larger than the modelled object", size <= V_TXOVER);
        p = malloc(V_TXOVER);
        g_led.tx_buf = p;
        g_led.tx_req = size;
    } else {
        p = malloc(size);
    }
#elif defined(V_TXCAP) && !defined(V_REPLAY)
    if (size > V_SMALL_MAX) {
        V_REQUIRE("model.txcap: request not smaller than the modelled capacity", size >= V_TXCAP);
#ifdef V_TX_STATIC
        /* a static array (contents nondeterministic, like fresh memory): lets symex keep constant-offset bytes apart,
         * which the whole-frame Hello decoder needs; released by lltd_port_free without calling free() */
        V_REQUIRE("model.txstatic: one transmit buffer at a time", g_led.tx_buf == NULL);
        __CPROVER_havoc_object(v_txbuf);
        p = v_txbuf;
#else
        p = malloc(V_TXCAP);
#endif
        g_led.tx_buf = p;
        g_led.tx_req = size;
    } else {
        p = malloc(size);
    }
#else
    p = malloc(size);
    if (size > V_SMALL_MAX) {
        g_led.tx_buf = p;
        g_led.tx_req = size;
    }
#endif
#ifndef V_REPLAY
    __CPROVER_assume(p != NULL);
#else
    if (!p) abort();
    memset(p, 0xA5, size);      /* fresh memory is not zero */
#endif
    g_led.live++;
    return p;
}

void lltd_port_free(void *ptr) {
    if (ptr) {
        V_REQUIRE("port.free.ledger: release of memory that is not live", g_led.live > 0);
        g_led.live--;
        if (ptr == g_led.tx_buf) {
            g_led.tx_buf = NULL;
#if defined(V_TX_STATIC) && !defined(V_REPLAY)
            return;
#endif
        }
#if defined(V_TX_STATIC) && !defined(V_REPLAY)
        V_REQUIRE("C01.free-inside-static-tx: free of a pointer into the transmit buffer", !__CPROVER_same_object(ptr, v_txbuf));
#endif
    }
    free(ptr);
}

void *lltd_port_memset(void *ptr, int value, size_t num) {
#ifdef V_REPLAY
    return memset(ptr, value, num);
#else
    if (num == 0) {
        return ptr;
    }
    if (ptr == g_led.tx_buf && num == g_led.tx_req && g_led.tx_buf != NULL) {
        /* whole transmit buffer (truncated or exact): one array operation */
        __CPROVER_array_set((uint8_t *)ptr, (uint8_t)value);
        return ptr;
    }
    if (__CPROVER_POINTER_OFFSET(ptr) == 0 && num == __CPROVER_OBJECT_SIZE(ptr) && num > 1024) {
        __CPROVER_array_set((uint8_t *)ptr, (uint8_t)value);
        return ptr;
    }
    /* partial fill: CBMC's own memset (array_set on a temporary + array_replace), sizes are constants in the core */
    V_REQUIRE("model.memset: partial fill longer than 1024 bytes is outside the model", num <= 1024);
    return memset(ptr, value, num);
#endif
}

void *lltd_port_memcpy(void *destination, const void *source, size_t num) {
    g_led.cpy_dst = destination;
    g_led.cpy_src = source;
    g_led.cpy_n = num;
#ifdef V_REPLAY
    return memcpy(destination, source, num);
#else
    uint8_t *d = (uint8_t *)destination;
    const uint8_t *s = (const uint8_t *)source;
#ifdef V_TXOVER
    if (g_led.tx_buf != NULL && __CPROVER_same_object(d, g_led.tx_buf)) {
        V_REQUIRE("C01.tx-write-inside-request: a copy into the transmit buffer stays inside the requested size",
                  (size_t)__CPROVER_POINTER_OFFSET(d) + num <= g_led.tx_req);
    }
#endif
    if (num <= 64 && g_req.kind != V_K_QLTV) {
        /* constant-size copies of the TLV writers / QueryResp assembly */
#ifdef V_MEMCPY_BYTES
        /* plain byte assignments: keeps constant-offset bytes of the destination apart for symex (needed by the
         * whole-frame Hello decoder); CBMC's own memcpy goes through array_replace, which it cannot see through */
        for (size_t i = 0; i < 64; i++) {
            if (i < num) d[i] = s[i];
        }
#else
        memcpy(d, s, num);
#endif
    } else {
        /* long copy: bounds of both ranges are obligations; of the contents only the ghost byte g_k is copied - the
         * other destination bytes keep their previous value and NO obligation reads them (the payload check of the
         * transmit oracle is stated for byte g_k, which is arbitrary).  A whole-range havoc with symbolic length made
         * the SAT instance exceed the memory limit. */
        V_REQUIRE("C01.memcpy.src-readable: copy source inside its object", __CPROVER_r_ok(s, num));
        V_REQUIRE("C01.memcpy.dst-writable: copy destination inside its object", __CPROVER_w_ok(d, num));
        if (g_k < num) d[g_k] = s[g_k];
    }
    return destination;
#endif
}

int lltd_port_memcmp(const void *lhs, const void *rhs, size_t num) {
    const uint8_t *a = (const uint8_t *)lhs, *b = (const uint8_t *)rhs;
    for (size_t i = 0; i < 32; i++) {
        if (i < num && a[i] != b[i]) return a[i] < b[i] ? -1 : 1;
    }
    V_REQUIRE("model.memcmp: longer than 32 bytes is outside the model", num <= 32);
    return 0;
}

void lltd_port_sleep_ms(uint32_t milliseconds) {
    g_led.sleep_calls++;
    g_led.sleep_last = milliseconds;
    g_led.sleep_at_tx = g_led.tx_attempts;
}

void lltd_port_log_debug(const char *fmt, ...) { (void)fmt; }
void lltd_port_log_warning(const char *fmt, ...) { (void)fmt; }

/* ---- transmit: the single oracle for everything that leaves the responder ------------------------ */
int lltd_port_send_frame(void *iface_ctx, const void *frame, size_t frame_len) {
    V_CANARY("tx");
    V_REQUIRE("C17.send-ctx: transmit on the interface the request arrived on", iface_ctx == g_ctx);
    v_frame_check((const uint8_t *)frame, frame_len);
    const uint8_t *f = (const uint8_t *)frame;
    unsigned k = g_led.tx_attempts & 31u;
    if (g_led.tx_attempts == g_req.tx_base) {
        g_led.first_op = f[17];
        for (int i = 0; i < 6; i++) {
            g_led.first_eth_dst.a[i] = f[i];
            g_led.first_eth_src.a[i] = f[6 + i];
            g_led.first_real_dst.a[i] = f[18 + i];
            g_led.first_real_src.a[i] = f[24 + i];
        }
    }
    g_led.tx_attempts++;
    g_led.tx_op[f[17] & 15u]++;
    g_led.last_op = f[17];
    g_led.last_tos = f[15];
    g_led.last_len = frame_len;
    g_led.last_seq = v_be16(f + 30);
    for (int i = 0; i < 6; i++) {
        g_led.last_eth_dst.a[i] = f[i];
        g_led.last_eth_src.a[i] = f[6 + i];
        g_led.last_real_dst.a[i] = f[18 + i];
        g_led.last_real_src.a[i] = f[24 + i];
    }
    if ((g_cfg.send_fail_mask >> k) & 1u) {
        return -1;
    }
    g_led.tx_count++;
    return 0;
}

/* ---- getters: succeed with the configured value or fail leaving the output untouched (A3) --------- */
int lltd_port_get_mtu(void *iface_ctx, size_t *out_mtu) {
    V_REQUIRE("C17.getter-ctx", iface_ctx == g_ctx);
    if (g_cfg.mtu_fail) return -1;
    *out_mtu = g_cfg.mtu;
    return 0;
}

int lltd_port_get_mac_address(void *iface_ctx, ethernet_address_t *out_mac) {
    V_REQUIRE("C17.getter-ctx", iface_ctx == g_ctx);
    if (g_cfg.mac_fail) return -1;
    *out_mac = g_cfg.mac;
    return 0;
}

uint32_t lltd_port_get_characteristics_flags(void *iface_ctx) {
    V_REQUIRE("C17.getter-ctx", iface_ctx == g_ctx);
    return g_cfg.flags;
}

int lltd_port_get_if_type(void *iface_ctx, uint32_t *out_if_type) {
    V_REQUIRE("C17.getter-ctx", iface_ctx == g_ctx);
    if (g_cfg.iftype_fail) return -1;
    *out_if_type = g_cfg.iftype;
    return 0;
}

int lltd_port_get_ipv4_address(void *iface_ctx, uint32_t *out_ipv4_be) {
    V_REQUIRE("C17.getter-ctx", iface_ctx == g_ctx);
    if (g_cfg.ipv4_fail) return -1;
    /* "big-endian word": the four address bytes in memory order a.b.c.d */
    uint8_t *o = (uint8_t *)out_ipv4_be;
    o[0] = (uint8_t)(g_cfg.ipv4_be >> 24); o[1] = (uint8_t)(g_cfg.ipv4_be >> 16);
    o[2] = (uint8_t)(g_cfg.ipv4_be >> 8);  o[3] = (uint8_t)(g_cfg.ipv4_be);
    return 0;
}

int lltd_port_get_ipv6_address(void *iface_ctx, uint8_t out_ipv6[16]) {
    V_REQUIRE("C17.getter-ctx", iface_ctx == g_ctx);
    if (g_cfg.ipv6_fail) return -1;
    for (int i = 0; i < 16; i++) out_ipv6[i] = g_cfg.ipv6[i];
    return 0;
}

int lltd_port_get_link_speed_100bps(void *iface_ctx, uint32_t *out_speed_100bps) {
    V_REQUIRE("C17.getter-ctx", iface_ctx == g_ctx);
    if (g_cfg.speed_fail) return -1;
    *out_speed_100bps = g_cfg.speed;
    return 0;
}

static size_t v_copy_name(void *dst, size_t dst_len, const uint8_t *src, size_t len) {
    uint8_t *d = (uint8_t *)dst;
    for (size_t i = 0; i < V_NAME_MAX; i++) {
        if (i < len && i < dst_len) d[i] = src[i];
    }
    return len;
}

size_t lltd_port_get_hostname(void *dst, size_t dst_len) {
    if (!dst || dst_len == 0) return 0;
    return v_copy_name(dst, dst_len, g_cfg.hostname, g_cfg.hostname_len);
}

size_t lltd_port_get_support_url(void *dst, size_t dst_len) {
    (void)dst; (void)dst_len;
    return 0;
}

int lltd_port_get_upnp_uuid(uint8_t out_uuid[16]) {
    (void)out_uuid;
    return -1;
}

size_t lltd_port_get_hw_id(void *dst, size_t dst_len) {
    if (!dst || dst_len == 0) return 0;
    uint8_t *d = (uint8_t *)dst;
    for (size_t i = 0; i < 64; i++) {
        if (i < g_cfg.hwid_len && i < dst_len) d[i] = g_cfg.hwid[i];
    }
    return g_cfg.hwid_len;
}

int lltd_port_get_wifi_mode(void *iface_ctx, uint8_t *out_mode) {
    V_REQUIRE("C17.getter-ctx", iface_ctx == g_ctx);
    if (!g_cfg.wifi) return -1;
    *out_mode = g_cfg.wifi_mode;
    return 0;
}

int lltd_port_get_bssid(void *iface_ctx, uint8_t out_bssid[6]) {
    V_REQUIRE("C17.getter-ctx", iface_ctx == g_ctx);
    if (!g_cfg.wifi || g_cfg.bssid_fail) return -1;
    for (int i = 0; i < 6; i++) out_bssid[i] = g_cfg.bssid[i];
    return 0;
}

size_t lltd_port_get_ssid(void *iface_ctx, void *dst, size_t dst_len) {
    V_REQUIRE("C17.getter-ctx", iface_ctx == g_ctx);
    if (!g_cfg.wifi || !dst || dst_len == 0) return 0;
    return v_copy_name(dst, dst_len, g_cfg.ssid, g_cfg.ssid_len);
}

int lltd_port_get_wifi_max_rate_0_5mbps(void *iface_ctx, uint16_t *out_units_0_5mbps) {
    V_REQUIRE("C17.getter-ctx", iface_ctx == g_ctx);
    if (!g_cfg.wifi || g_cfg.rate_fail) return -1;
    *out_units_0_5mbps = g_cfg.rate;
    return 0;
}

int lltd_port_get_wifi_rssi_dbm(void *iface_ctx, int8_t *out_rssi_dbm) {
    V_REQUIRE("C17.getter-ctx", iface_ctx == g_ctx);
    if (!g_cfg.wifi || g_cfg.rssi_fail) return -1;
    *out_rssi_dbm = g_cfg.rssi;
    return 0;
}

int lltd_port_get_wifi_phy_medium(void *iface_ctx, uint32_t *out_phy_medium) {
    V_REQUIRE("C17.getter-ctx", iface_ctx == g_ctx);
    (void)out_phy_medium;
    return -1;
}

/* icon / friendly name: hand over a fresh buffer the core owns, holding the configured bytes */
static int v_give_blob(void **out_data, size_t *out_size, const uint8_t *src, size_t n, uint8_t fail) {
    if (!out_data || !out_size) return -1;
    if (fail || n == 0) {
        *out_data = NULL;
        *out_size = 0;
        return -1;
    }
    uint8_t *p = (uint8_t *)lltd_port_malloc(n);
    if (!p) {
        *out_data = NULL;
        *out_size = 0;
        return -1;
    }
    for (size_t i = 0; i < V_ICON_CAP; i++) {
        if (i < n) p[i] = src[i];
    }
    *out_data = p;
    *out_size = n;
    return 0;
}

int lltd_port_get_icon_image(void **out_data, size_t *out_size) {
#if defined(V_ICON_BIG) && !defined(V_REPLAY)
    /* big-icon instance: an icon of any size up to 65535 bytes whose CONTENTS are not modelled (arbitrary, never compared);
     * what is decided there is the caching / ownership logic and the arguments handed to sendLargeTlvResponse */
    if (!out_data || !out_size) return -1;
    size_t n = g_cfg.icon_big;
    void *p = (g_cfg.icon_fail || n == 0) ? NULL : lltd_port_malloc(n);
    if (!p) { *out_data = NULL; *out_size = 0; return -1; }
    *out_data = p; *out_size = n;
    return 0;
#else
    return v_give_blob(out_data, out_size, g_cfg.icon, g_cfg.icon_size, g_cfg.icon_fail);
#endif
}

int lltd_port_get_friendly_name(void **out_data, size_t *out_size) {
    return v_give_blob(out_data, out_size, g_cfg.fname, g_cfg.fname_size, g_cfg.fname_fail);
}
