/* state_contracts.h — contracts for the per-interface state management of lltdBlock.c (lookup / creation, release of the
 * observation list and of the icon cache).  Included by the harness AFTER lltdBlock.c: a contract on a redeclaration that
 * follows the definition is accepted by goto-cc, and these three functions are never replaced elsewhere. */
#ifndef V_STATE_CONTRACTS_H
#define V_STATE_CONTRACTS_H

#include "v_nocheck_push.h"

/* a freshly created record: all-zero apart from the context and the link (C09: "a responder that has just been started") */
#define ST_FRESH_FIELDS(st) \
    ((st)->see_list == NULL && (st)->see_list_count == 0 && (st)->mapper_known == 0 && (st)->mapper_seq == 0 && \
     (st)->mapper_gen_topology == 0 && (st)->mapper_gen_quick == 0 && (st)->small_icon == NULL && (st)->small_icon_size == 0)

static lltd_iface_state *lltd_state_for_iface(void *iface_ctx)
__CPROVER_assigns(g_iface_states, g_led)
__CPROVER_ensures(__CPROVER_return_value == NULL || __CPROVER_return_value->iface_ctx == iface_ctx) /*@C17.lookup-by-context C09.lookup-by-context*/
__CPROVER_ensures(__CPROVER_return_value != NULL || g_iface_states == __CPROVER_old(g_iface_states)) /*@C18.lookup-failure-leaves-list*/
;

static void lltd_state_clear_seen_probes(lltd_iface_state *st)
__CPROVER_requires(st == NULL || ST_SHAPE(st))
__CPROVER_assigns(st != NULL: st->see_list, st->see_list_count; g_led)
__CPROVER_frees(LIST_FREES_C(st != NULL, st->see_list))
__CPROVER_ensures(st == NULL || (st->see_list == NULL && st->see_list_count == 0)) /*@C09.clear-observations C19.clear-observations*/
__CPROVER_ensures(st == NULL ? g_led.live == __CPROVER_old(g_led.live) : g_led.live == __CPROVER_old(g_led.live) - __CPROVER_old(st->see_list_count)) /*@C19.clear-observations-ledger*/
;

static void lltd_state_clear_icon_cache(lltd_iface_state *st)
__CPROVER_requires(st == NULL || ST_SHAPE(st))
__CPROVER_assigns(st != NULL: st->small_icon, st->small_icon_size; g_led)
__CPROVER_frees(st != NULL && st->small_icon != NULL: st->small_icon)
__CPROVER_ensures(st == NULL || (st->small_icon == NULL && st->small_icon_size == 0)) /*@C09.clear-icon C19.clear-icon*/
__CPROVER_ensures(g_led.live == __CPROVER_old(g_led.live) - ((st != NULL && __CPROVER_old(st->small_icon) != NULL) ? 1u : 0u)) /*@C19.clear-icon-ledger*/
;

#include "v_nocheck_pop.h"
#endif
