/* automata_contracts.h — contracts for lltdAutomata.c (on forward declarations; the repository file is
 * included unmodified after this header).  Every clause is a macro so that the SAME text is
 *   (a) the __CPROVER_requires / __CPROVER_ensures clause enforced by DFCC,
 *   (b) what callers assume when the function is replaced by its contract,
 *   (c) the run-time check of the native replay build.
 * "old" values are explicit macro parameters (bound to __CPROVER_old(..) in the contract and to the
 * harness's snapshot in the replay build).  Tags: / *@Cxx.name* / on the clause line.
 */
#ifndef V_AUTOMATA_CONTRACTS_H
#define V_AUTOMATA_CONTRACTS_H

#include "v_ghost.h"
#include "v_spec.h"
#include "lltdAutomata.h"

/* =============================== C13: RepeatBand =============================================== */
#define BAND_OK(b)      ((b)->Ni >= 45u && (b)->Ni <= 10000u)
#define PRE_band(b)     ((b) == NULL || (V_RW_OK((b), sizeof(band_state)) && BAND_OK(b)))

#define C13_NI_FORMULA(b, r0, begun0, ni0) \
    ((b) == NULL || (((r0) > 0u && (begun0)) ? (b)->Ni == v_spec_ni(r0) : (b)->Ni == (ni0)))
#define C13_NI_RANGE(b)            ((b) == NULL || BAND_OK(b))
#define C13_R_RESET(b)             ((b) == NULL || (b)->r == 0u)
#define C13_BLOCK_DEADLINE(b)      ((b) == NULL || (b)->block_timeout_ts == v_now_ms() + 300u)
#define C13_UPD_REST(b, begun0, h0) ((b) == NULL || ((b)->begun == (begun0) && (b)->hello_timeout_ts == (h0)))

void band_update_stats(band_state *band)
__CPROVER_requires(PRE_band(band))
__CPROVER_assigns(band != NULL: *band; g_led)
__CPROVER_ensures(C13_NI_FORMULA(band, __CPROVER_old(band->r), __CPROVER_old(band->begun), __CPROVER_old(band->Ni))) /*@C13.ni-formula*/
__CPROVER_ensures(C13_NI_RANGE(band)) /*@C13.ni-range*/
__CPROVER_ensures(C13_R_RESET(band)) /*@C13.r-reset*/
__CPROVER_ensures(C13_BLOCK_DEADLINE(band)) /*@C13.block-deadline*/
__CPROVER_ensures(C13_UPD_REST(band, __CPROVER_old(band->begun), __CPROVER_old(band->hello_timeout_ts))) /*@C13.update-rest*/
;

#define C13_INTERVAL(b, ret)       ((b) == NULL ? (ret) == 0u : ((ret) == (b)->hello_timeout_ts && (ret) == v_now_ms() + v_spec_interval((b)->Ni)))
#define C13_CHOOSE_REST(b, ni0, r0, begun0, blk0) \
    ((b) == NULL || ((b)->Ni == (ni0) && (b)->r == (r0) && (b)->begun == (begun0) && (b)->block_timeout_ts == (blk0)))

uint64_t band_choose_hello_time(band_state *band)
__CPROVER_requires(PRE_band(band))
__CPROVER_assigns(band != NULL: *band; g_led)
__CPROVER_ensures(C13_INTERVAL(band, __CPROVER_return_value)) /*@C13.interval*/
__CPROVER_ensures(C13_CHOOSE_REST(band, __CPROVER_old(band->Ni), __CPROVER_old(band->r), __CPROVER_old(band->begun), __CPROVER_old(band->block_timeout_ts))) /*@C13.choose-rest*/
;

#define C13_DOHELLO(b, ni0, r0, blk0) \
    ((b) == NULL || ((b)->begun && (b)->hello_timeout_ts == v_now_ms() + v_spec_interval((b)->Ni) && \
                     (b)->Ni == (ni0) && (b)->r == (r0) && (b)->block_timeout_ts == (blk0)))

void band_do_hello(band_state *band)
__CPROVER_requires(PRE_band(band))
__CPROVER_assigns(band != NULL: *band; g_led)
__CPROVER_ensures(C13_DOHELLO(band, __CPROVER_old(band->Ni), __CPROVER_old(band->r), __CPROVER_old(band->block_timeout_ts))) /*@C13.do-hello*/
;

#define C13_HEARD(b, ni0, r0, begun0, h0, blk0) \
    ((b) == NULL || ((b)->r == (uint32_t)((r0) + 1u) && (b)->begun == ((begun0) || (uint32_t)((r0) + 1u) >= 10u) && \
                     (b)->Ni == (ni0) && (b)->hello_timeout_ts == (h0) && (b)->block_timeout_ts == (blk0)))

void band_on_hello_received(band_state *band)
__CPROVER_requires(PRE_band(band))
__CPROVER_assigns(band != NULL: *band)
__CPROVER_ensures(C13_HEARD(band, __CPROVER_old(band->Ni), __CPROVER_old(band->r), __CPROVER_old(band->begun), __CPROVER_old(band->hello_timeout_ts), __CPROVER_old(band->block_timeout_ts))) /*@C13.hello-heard*/
;

#define C13_INIT(b) \
    ((b) == NULL || ((b)->Ni == 45u && (b)->r == 0u && !(b)->begun && (b)->hello_timeout_ts == 0u && \
                     (b)->block_timeout_ts == v_now_ms() + 300u))

void band_init_stats(band_state *band)
__CPROVER_requires(band == NULL || V_RW_OK(band, sizeof(band_state)))
__CPROVER_assigns(band != NULL: *band; g_led)
__CPROVER_ensures(C13_INIT(band)) /*@C13.init*/
;

/* =============================== automaton shape (memory safety of the lookup) =================== */
#define AUTOM_SHAPE(a) \
    (V_RW_OK((a), sizeof(automata)) && (a)->transitions_no <= MAX_TRANSITIONS && (a)->current_state < MAX_STATES && \
     (a)->states_no <= MAX_STATES)

/* states and successor states stay below the number of states: needed so that the lookup of the state
 * record is in bounds after any number of steps */
static inline bool v_autom_closed(const automata *a) {
    if (a->states_no > MAX_STATES || a->current_state >= a->states_no || a->transitions_no > MAX_TRANSITIONS) return false;
    for (int i = 0; i < MAX_TRANSITIONS; i++) {
        if (i < a->transitions_no && a->transitions_table[i].to >= a->states_no) return false;
    }
    return true;
}

#endif
