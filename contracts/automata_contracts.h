/* automata_contracts.h — contracts for lltdAutomata.c (on forward declarations; the repository file is
 * included unmodified after this header).  Every clause is a macro so that the SAME text is
 *   (a) the __CPROVER_requires / __CPROVER_ensures clause enforced by DFCC,
 *   (b) what callers assume when the function is replaced by its contract,
 *   (c) the run-time check of the native replay build.
 * "old" values are explicit macro parameters (bound to __CPROVER_old(..) in the contract and to the
 * harness's snapshot in the replay build).  Tags: / *@Cxx.name* / on the clause line.
 */
#ifndef V_AUTOMATA_CONTRACTS_H
#define V_AUTOMATA_CONTRACTS_H

#include "v_ghost.h"
#include "v_spec.h"
#include "lltdAutomata.h"

#include "v_nocheck_push.h"

/* =============================== C13: RepeatBand =============================================== */
#define BAND_OK(b)      ((b)->Ni >= 45u && (b)->Ni <= 10000u)
#define PRE_band(b)     ((b) == NULL || (V_RW_OK((b), sizeof(band_state)) && BAND_OK(b)))

#define C13_NI_FORMULA(b, r0, begun0, ni0) \
    ((b) == NULL || (((r0) > 0u && (begun0)) ? (b)->Ni == v_spec_ni(r0) : (b)->Ni == (ni0)))
#define C13_NI_RANGE(b)            ((b) == NULL || BAND_OK(b))
#define C13_R_RESET(b)             ((b) == NULL || (b)->r == 0u)
#define C13_BLOCK_DEADLINE(b)      ((b) == NULL || (b)->block_timeout_ts == v_now_ms() + 300u)
#define C13_UPD_REST(b, begun0, h0) ((b) == NULL || ((b)->begun == (begun0) && (b)->hello_timeout_ts == (h0)))

void band_update_stats(band_state *band)
__CPROVER_requires(PRE_band(band))
__CPROVER_assigns(band != NULL: *band)
__CPROVER_ensures(C13_NI_FORMULA(band, __CPROVER_old(band->r), __CPROVER_old(band->begun), __CPROVER_old(band->Ni))) /*@C13.ni-formula*/
__CPROVER_ensures(C13_NI_RANGE(band)) /*@C13.ni-range*/
__CPROVER_ensures(C13_R_RESET(band)) /*@C13.r-reset*/
__CPROVER_ensures(C13_BLOCK_DEADLINE(band)) /*@C13.block-deadline*/
__CPROVER_ensures(C13_UPD_REST(band, __CPROVER_old(band->begun), __CPROVER_old(band->hello_timeout_ts))) /*@C13.update-rest*/
;

#define C13_INTERVAL(b, ret)       ((b) == NULL ? (ret) == 0u : ((ret) == (b)->hello_timeout_ts && (ret) == v_now_ms() + v_spec_interval((b)->Ni)))
#define C13_CHOOSE_REST(b, ni0, r0, begun0, blk0) \
    ((b) == NULL || ((b)->Ni == (ni0) && (b)->r == (r0) && (b)->begun == (begun0) && (b)->block_timeout_ts == (blk0)))

uint64_t band_choose_hello_time(band_state *band)
__CPROVER_requires(PRE_band(band))
__CPROVER_assigns(band != NULL: *band)
__CPROVER_ensures(C13_INTERVAL(band, __CPROVER_return_value)) /*@C13.interval*/
__CPROVER_ensures(C13_CHOOSE_REST(band, __CPROVER_old(band->Ni), __CPROVER_old(band->r), __CPROVER_old(band->begun), __CPROVER_old(band->block_timeout_ts))) /*@C13.choose-rest*/
;

#define C13_DOHELLO(b, ni0, r0, blk0) \
    ((b) == NULL || ((b)->begun && (b)->hello_timeout_ts == v_now_ms() + v_spec_interval((b)->Ni) && \
                     (b)->Ni == (ni0) && (b)->r == (r0) && (b)->block_timeout_ts == (blk0)))

void band_do_hello(band_state *band)
__CPROVER_requires(PRE_band(band))
__CPROVER_assigns(band != NULL: *band)
__CPROVER_ensures(C13_DOHELLO(band, __CPROVER_old(band->Ni), __CPROVER_old(band->r), __CPROVER_old(band->block_timeout_ts))) /*@C13.do-hello*/
;

#define C13_HEARD(b, ni0, r0, begun0, h0, blk0) \
    ((b) == NULL || ((b)->r == (uint32_t)((r0) + 1u) && (b)->begun == ((begun0) || (uint32_t)((r0) + 1u) >= 10u) && \
                     (b)->Ni == (ni0) && (b)->hello_timeout_ts == (h0) && (b)->block_timeout_ts == (blk0)))

void band_on_hello_received(band_state *band)
__CPROVER_requires(PRE_band(band))
__CPROVER_assigns(band != NULL: *band)
__CPROVER_ensures(C13_HEARD(band, __CPROVER_old(band->Ni), __CPROVER_old(band->r), __CPROVER_old(band->begun), __CPROVER_old(band->hello_timeout_ts), __CPROVER_old(band->block_timeout_ts))) /*@C13.hello-heard*/
;

#define C13_INIT(b) \
    ((b) == NULL || ((b)->Ni == 45u && (b)->r == 0u && !(b)->begun && (b)->hello_timeout_ts == 0u && \
                     (b)->block_timeout_ts == v_now_ms() + 300u))

void band_init_stats(band_state *band)
__CPROVER_requires(band == NULL || V_RW_OK(band, sizeof(band_state)))
__CPROVER_assigns(band != NULL: *band)
__CPROVER_ensures(C13_INIT(band)) /*@C13.init*/
;

/* =============================== automaton shape (memory safety of the lookup) =================== */
#define AUTOM_SHAPE(a) \
    (V_RW_OK((a), sizeof(automata)) && (a)->transitions_no <= MAX_TRANSITIONS && (a)->current_state < MAX_STATES && \
     (a)->states_no <= MAX_STATES)

/* states and successor states stay below the number of states: needed so that the lookup of the state
 * record is in bounds after any number of steps */
#define V_CLOSED_(i) && (!((i) < a->transitions_no) || a->transitions_table[i].to < a->states_no)
static inline bool v_autom_closed(const automata *a) {
    return a->states_no <= MAX_STATES && a->current_state < a->states_no && a->transitions_no <= MAX_TRANSITIONS
           V_REP128(V_CLOSED_);
}

/* =============================== C14 / C15: automaton step ====================================== */
#define PRE_switch(a)  (AUTOM_SHAPE(a) && v_autom_closed(a))

/* mapping engine, from the statement of C14.  States 0 idle, 1 Command, 2 Emit.  tmo = the automaton's own
 * timeout of s0 (checked separately to be non-zero and <= 30 for the active states). */
static inline bool v_mapping_step_ok(uint8_t s0, int input, uint64_t elapsed, short tmo, uint8_t s1) {
    if (s0 != 0 && tmo != 0 && elapsed > (uint64_t)tmo) {
        /* timed out: back to idle; only a Discover may reopen a session in that same step */
        return s1 == 0 || (input == 0x00 && s1 == 1);
    }
    if (input == 0x00) return s1 == (s0 == 0 ? 1 : s0);          /* Discover opens a session          */
    if (input == 0x02) return s1 == (s0 == 1 ? 2 : s0);          /* Emit: Command -> Emit             */
    if (input == -3)   return s1 == (s0 == 2 ? 1 : s0);          /* emission complete: Emit -> Command */
    if (input == 0x08) return s1 == 0;                           /* Reset ends the session            */
    if (input == -1)   return s1 == 0;                           /* explicit timeout event (tick)     */
    return s1 == s0;                                             /* every other frame: unchanged      */
}

/* session automaton, from the statement of C15.  States 0 Temporary, 1 Nascent, 2 Pending, 3 Complete. */
static inline bool v_session_step_ok(uint8_t s0, int ev, uint64_t elapsed, short tmo, uint8_t s1) {
    if (tmo != 0 && elapsed > (uint64_t)tmo) return s1 == 1;     /* inactivity: every state -> Nascent */
    if (ev == 0x01) return s1 == 1;                              /* Reset: every state -> Nascent      */
    switch (s0) {
        case 1: /* Nascent */
            if (ev == 0x02) return s1 == 2;                      /* non-acknowledging Discover         */
            if (ev == 0x03) return s1 == 3;                      /* acknowledging Discover             */
            if (ev == 0x00) return s1 == 0;                      /* conflicting Discover               */
            return s1 == 1;
        case 2: /* Pending */
            if (ev == 0x03 || ev == 0x05) return s1 == 3;
            return s1 == 2;
        case 3: /* Complete */
            if (ev == 0x04) return s1 == 2;
            return s1 == 3;
        case 0: /* Temporary */
            if (ev == 0x07 || ev == 0x06) return s1 == 1;
            return s1 == 0;
        default:
            return false;
    }
}

#define STEP_FRAME(a)  ((a)->last_ts == v_now_s() && v_autom_closed(a))

/* generic step relation (table-independent): without a timeout on entry the successor is the target of a
 * transition matching (state, input), or the state itself when none matches.  Deliberately silent on WHICH
 * of several matching transitions wins, and on the timed-out case (that is decided at the lemma harnesses
 * against the real tables).  Strong enough for the recursive call after a timeout. */
#define V_MATCH_(i) ((i) < a->transitions_no && a->transitions_table[i].from == s0 && a->transitions_table[i].with == input)
#define V_ANY_(i) || V_MATCH_(i)
#define V_HIT_(i) || (V_MATCH_(i) && a->transitions_table[i].to == s1)
static inline bool v_autom_step_rel(const automata *a, uint8_t s0, int input, uint8_t s1) {
    return (false V_REP128(V_ANY_)) ? (false V_REP128(V_HIT_)) : (s1 == s0);
}
#define STEP_TIMED_OUT(a, s0, last0, now1) \
    ((a)->states_table[s0].timeout != 0 && (uint64_t)((now1) - (last0)) > (uint64_t)(a)->states_table[s0].timeout)
#define STEP_GENERIC(a, s0, input, last0, now1) \
    (STEP_TIMED_OUT(a, s0, last0, now1) || v_autom_step_rel((a), (s0), (input), (a)->current_state))

automata *switch_state_mapping(automata *autom, int input, char *debug)
__CPROVER_requires(PRE_switch(autom))
__CPROVER_assigns(autom->current_state, autom->last_ts)
__CPROVER_ensures(__CPROVER_return_value == autom) /*@C14.ret C01.ret*/
__CPROVER_ensures(STEP_GENERIC(autom, __CPROVER_old(autom->current_state), input, __CPROVER_old(autom->last_ts), v_now_s())) /*@C14.step-generic*/
__CPROVER_ensures(STEP_FRAME(autom)) /*@C14.last-ts C01.closed*/
;

automata *switch_state_session(automata *autom, int input, char *debug)
__CPROVER_requires(PRE_switch(autom))
__CPROVER_assigns(autom->current_state, autom->last_ts)
__CPROVER_ensures(__CPROVER_return_value == autom) /*@C15.ret C01.ret*/
__CPROVER_ensures(STEP_GENERIC(autom, __CPROVER_old(autom->current_state), input, __CPROVER_old(autom->last_ts), v_now_s())) /*@C15.step-generic*/
__CPROVER_ensures(STEP_FRAME(autom)) /*@C15.last-ts C01.closed*/
;

automata *switch_state_enumeration(automata *autom, int input, char *debug)
__CPROVER_requires(PRE_switch(autom))
__CPROVER_assigns(autom->current_state, autom->last_ts)
__CPROVER_ensures(__CPROVER_return_value == autom) /*@C12.ret C01.ret*/
__CPROVER_ensures(STEP_FRAME(autom)) /*@C12.last-ts C01.closed*/
;

/* =============================== C18: constructors =============================================== */
#define CTOR_BASE(ret, nstates, s0) \
    ((ret) == NULL || (V_RW_OK((ret), sizeof(automata)) && (ret)->states_no == (nstates) && v_autom_closed(ret) && \
                       (ret)->current_state == (s0) && (ret)->last_ts <= v_now_s()))
#define MSTATE_INIT(m)  ((m)->ctc == 0 && (m)->charge_timeout_ts == 0 && (m)->inactive_timeout_ts == 0)
#define BSTATE_INIT(b)  ((b)->Ni == 45u && (b)->r == 0u && !(b)->begun && (b)->hello_timeout_ts == 0 && (b)->block_timeout_ts == 0)
#define C18_CTOR_MAPPING(ret) \
    (CTOR_BASE(ret, 3, 0) && ((ret) == NULL || (ret)->extra == NULL || MSTATE_INIT((mapping_state *)(ret)->extra)))
#define C18_CTOR_ENUM(ret) \
    (CTOR_BASE(ret, 3, 0) && ((ret) == NULL || (ret)->extra == NULL || BSTATE_INIT((band_state *)(ret)->extra)))
#define C18_CTOR_SESSION(ret) \
    (CTOR_BASE(ret, 4, 1) && ((ret) == NULL || (ret)->extra == NULL))
/* nothing leaked: live allocations grew by exactly what the result holds */
#define C18_CTOR_LEDGER(ret, live0) \
    (g_led.live == (live0) + ((ret) != NULL ? 1u : 0u) + (((ret) != NULL && (ret)->extra != NULL) ? 1u : 0u))

automata *init_automata_mapping(void)
__CPROVER_assigns(g_led)
__CPROVER_ensures(C18_CTOR_MAPPING(__CPROVER_return_value)) /*@C18.ctor-mapping*/
__CPROVER_ensures(C18_CTOR_LEDGER(__CPROVER_return_value, __CPROVER_old(g_led.live))) /*@C18.ctor-ledger C19.ctor-ledger*/
;
automata *init_automata_enumeration(void)
__CPROVER_assigns(g_led)
__CPROVER_ensures(C18_CTOR_ENUM(__CPROVER_return_value)) /*@C18.ctor-enumeration*/
__CPROVER_ensures(C18_CTOR_LEDGER(__CPROVER_return_value, __CPROVER_old(g_led.live))) /*@C18.ctor-ledger C19.ctor-ledger*/
;
automata *init_automata_session(void)
__CPROVER_assigns(g_led)
__CPROVER_ensures(C18_CTOR_SESSION(__CPROVER_return_value)) /*@C18.ctor-session*/
__CPROVER_ensures(C18_CTOR_LEDGER(__CPROVER_return_value, __CPROVER_old(g_led.live))) /*@C18.ctor-ledger C19.ctor-ledger*/
;

/* =============================== C16: session table ============================================= */
#define ST_N SESSION_TABLE_MAX_ENTRIES
#define v_key_eq(e_, mac_, gen_) (v_mac_eq((e_)->mapper_mac, (mac_)) && (e_)->generation == (gen_))
/* abstract view: number of live sessions, membership, "every live session complete" */
/* the sum is taken in 8-bit arithmetic (16 one-bit summands): 32-bit adder chains made "count = live sessions"
 * after an insertion a 3-minute SAT problem */
#ifdef V_REPLAY
typedef unsigned v_u8sum;
#else
typedef unsigned __CPROVER_bitvector[8] v_u8sum;
#endif
#define V_SZ_(i) + (v_u8sum)(t->entries[i].valid ? 1 : 0)
static inline unsigned v_st_size(const session_table *t) { return (unsigned)((v_u8sum)0 V_REP16(V_SZ_)); }
#define V_HAS_(i) || (t->entries[i].valid && v_key_eq(&t->entries[i], mac, gen))
static inline bool v_st_has(const session_table *t, const uint8_t *mac, uint16_t gen) { return false V_REP16(V_HAS_); }
#define V_ALLC_(i) && (!t->entries[i].valid || t->entries[i].complete)
static inline bool v_st_allc(const session_table *t) { return true V_REP16(V_ALLC_); }
/* key uniqueness, stated for the pair (i, g_j) with the ghost index g_j arbitrary: the harness proves
 * WF_gj(pre) => WF_gj(post) for every g_j, hence (forall g_j. WF_gj(pre)) => (forall g_j. WF_gj(post)) */
/* the ghost entry is read ONCE by value: a pointer with a symbolic offset dereferenced 100 times cost 600k SAT variables */
#define V_UNQ_(i) && ((size_t)(i) == g_j || !(t->entries[i].valid && v_mac_eq(t->entries[i].mapper_mac, ej.mapper_mac) && \
                      t->entries[i].generation == ej.generation))
static inline bool v_st_unique_with(const session_table *t, session_entry ej) { return !ej.valid || (true V_REP16(V_UNQ_)); }
static inline bool v_st_unique(const session_table *t) { return g_j >= ST_N || v_st_unique_with(t, t->entries[g_j]); }
/* representation invariant; ST_WF_NOFLAG is "well-formed modulo the all-complete flag" (the state between a
 * caller's write to entry->complete and its call of session_table_update_complete_status) */
/* evaluated on a by-value copy: one dereference of the (possibly NULL / freshly allocated) pointer instead
 * of ~200, each of which would carry its own pointer-validity obligations */
/* flat (call-free) by-value forms: DFCC mis-links nested spec-function calls inside the clauses of REPLACED
 * contracts ("not enough arguments, inserting non-deterministic value") */
#define V_SZV_(i) + (v_u8sum)(tv.entries[i].valid ? 1 : 0)
#define V_ALLCV_(i) && (!tv.entries[i].valid || tv.entries[i].complete)
#define V_GJX_ (g_j < ST_N ? g_j : 0)
#define V_UNQV_(i) && ((size_t)(i) == g_j || !(tv.entries[i].valid && \
        tv.entries[i].mapper_mac[0] == tv.entries[V_GJX_].mapper_mac[0] && tv.entries[i].mapper_mac[1] == tv.entries[V_GJX_].mapper_mac[1] && \
        tv.entries[i].mapper_mac[2] == tv.entries[V_GJX_].mapper_mac[2] && tv.entries[i].mapper_mac[3] == tv.entries[V_GJX_].mapper_mac[3] && \
        tv.entries[i].mapper_mac[4] == tv.entries[V_GJX_].mapper_mac[4] && tv.entries[i].mapper_mac[5] == tv.entries[V_GJX_].mapper_mac[5] && \
        tv.entries[i].generation == tv.entries[V_GJX_].generation))
#define V_UNQV_ALL_ (g_j >= ST_N || !tv.entries[V_GJX_].valid || (true V_REP16(V_UNQV_)))
static inline unsigned v_st_size_v(session_table tv) { return (unsigned)((v_u8sum)0 V_REP16(V_SZV_)); }
static inline bool v_st_allc_v(session_table tv) { return true V_REP16(V_ALLCV_); }
static inline bool v_st_wf_noflag_v(session_table tv) {
    return tv.count == (unsigned)((v_u8sum)0 V_REP16(V_SZV_)) && V_UNQV_ALL_;
}
static inline bool v_st_wf_v(session_table tv) {
    return tv.count == (unsigned)((v_u8sum)0 V_REP16(V_SZV_)) && V_UNQV_ALL_ && tv.all_complete == (true V_REP16(V_ALLCV_));
}
static inline bool v_st_has_v(session_table tv, const uint8_t *mac, uint16_t gen) { return v_st_has(&tv, mac, gen); }
#define ST_WF_NOFLAG(t) (V_RW_OK((t), sizeof(session_table)) && v_st_wf_noflag_v(*(t)))
#define ST_WF(t)        (V_RW_OK((t), sizeof(session_table)) && v_st_wf_v(*(t)))
#define V_IDX_(i) (e == &t->entries[i]) ? (i) :
static inline int v_st_index(const session_table *t, const session_entry *e) { return V_REP16(V_IDX_) -1; }
static inline bool v_entry_same_v(session_entry a, session_entry b) {
    return v_mac_eq(a.mapper_mac, b.mapper_mac) && a.generation == b.generation && a.seq_number == b.seq_number &&
           a.state == b.state && a.complete == b.complete && a.valid == b.valid &&
           a.last_activity_ts == b.last_activity_ts && a.created_ts == b.created_ts;
}
#define v_key_eq_v(e_, mac_, gen_) (v_mac_eq((e_).mapper_mac, (mac_)) && (e_).generation == (gen_))
#define v_entry_same(pa, pb) v_entry_same_v(*(pa), *(pb))
static inline bool v_live_key_v(session_entry e, const uint8_t *mac, uint16_t gen) { return e.valid && v_mac_eq(e.mapper_mac, mac) && e.generation == gen; }
#define GJ_OK (g_j < ST_N)

session_table *session_table_create(void)
__CPROVER_assigns(g_led)
__CPROVER_ensures(__CPROVER_return_value == NULL || (ST_WF(__CPROVER_return_value) && __CPROVER_return_value->count == 0 && __CPROVER_return_value->all_complete)) /*@C16.create C18.ctor-table*/
__CPROVER_ensures(g_led.live == __CPROVER_old(g_led.live) + (__CPROVER_return_value != NULL ? 1u : 0u)) /*@C18.ctor-ledger C19.ctor-ledger*/
;

#define FIND_ARGS_OK(t, mac) (((t) == NULL || ST_WF_NOFLAG(t)) && ((mac) == NULL || V_R_OK((mac), 6)))
#define C16_FIND_HIT(t, mac, gen, ret) \
    ((ret) == NULL || ((t) != NULL && (mac) != NULL && v_st_index((t), (ret)) >= 0 && (ret)->valid && v_key_eq((ret), (mac), (gen))))
#define C16_FIND_MISS(t, mac, gen, ret) \
    ((ret) != NULL || (t) == NULL || (mac) == NULL || !GJ_OK || !v_live_key_v((t)->entries[g_j], (mac), (gen)))

session_entry *session_table_find(session_table *table, const uint8_t *mapper_mac, uint16_t generation, uint16_t seq)
__CPROVER_requires(FIND_ARGS_OK(table, mapper_mac))
__CPROVER_assigns()
__CPROVER_ensures(C16_FIND_HIT(table, mapper_mac, generation, __CPROVER_return_value)) /*@C16.find-hit C11.find*/
__CPROVER_ensures(C16_FIND_MISS(table, mapper_mac, generation, __CPROVER_return_value)) /*@C16.find-miss C11.find*/
;

#define ADD_ARGS_OK(t, mac) (((t) == NULL || ST_WF(t)) && ((mac) == NULL || V_R_OK((mac), 6)))
#define C16_ADD_WF(t)  ((t) == NULL || ST_WF(t))
#define C16_ADD_RET(t, mac, gen, seq, ret) \
    ((ret) == NULL || (v_st_index((t), (ret)) >= 0 && (ret)->valid && v_key_eq((ret), (mac), (gen)) && (ret)->seq_number == (seq) && \
                       (ret)->last_activity_ts == v_now_s()))
/* entry g_j: untouched unless it is the returned one; a returned entry that was live before is a refresh
 * (size unchanged), one that was free is an insertion (size + 1, incomplete) */
#define C16_ADD_GJ(t, ret, e0, count0) \
    (!GJ_OK || (t) == NULL || \
     ((ret) != &(t)->entries[g_j] ? v_entry_same_v((t)->entries[g_j], (e0)) \
        : ((e0).valid ? ((t)->count == (count0) && (t)->entries[g_j].complete == (e0).complete && (t)->entries[g_j].created_ts == (e0).created_ts) \
                      : ((t)->count == (count0) + 1 && !(t)->entries[g_j].complete))))
#define C16_ADD_NULL(t, mac, ret, count0) \
    ((ret) != NULL || (t) == NULL || (mac) == NULL || ((count0) == ST_N && (t)->count == (count0)))

session_entry *session_table_add(session_table *table, const uint8_t *mapper_mac, uint16_t generation, uint16_t seq)
__CPROVER_requires(ADD_ARGS_OK(table, mapper_mac))
__CPROVER_requires(GJ_OK)
__CPROVER_assigns(table != NULL: *table)
__CPROVER_ensures(C16_ADD_WF(table)) /*@C16.add-wf*/
__CPROVER_ensures(C16_ADD_RET(table, mapper_mac, generation, seq, __CPROVER_return_value)) /*@C16.add-ret*/
__CPROVER_ensures(C16_ADD_GJ(table, __CPROVER_return_value, __CPROVER_old(table->entries[g_j]), __CPROVER_old(table->count))) /*@C16.add-others*/
__CPROVER_ensures(C16_ADD_NULL(table, mapper_mac, __CPROVER_return_value, __CPROVER_old(table->count))) /*@C16.add-full*/
;

#define C16_REMOVE_GONE(t, mac, gen) ((t) == NULL || (mac) == NULL || !GJ_OK || !v_live_key_v((t)->entries[g_j], (mac), (gen)))
#define C16_REMOVE_GJ(t, mac, gen, e0) \
    (!GJ_OK || (t) == NULL || (mac) == NULL || \
     (((e0).valid && v_key_eq_v((e0), (mac), (gen))) ? !(t)->entries[g_j].valid : v_entry_same_v((t)->entries[g_j], (e0))))

void session_table_remove(session_table *table, const uint8_t *mapper_mac, uint16_t generation)
__CPROVER_requires(ADD_ARGS_OK(table, mapper_mac))
__CPROVER_requires(GJ_OK)
__CPROVER_assigns(table != NULL: *table)
__CPROVER_ensures(C16_ADD_WF(table)) /*@C16.remove-wf*/
__CPROVER_ensures(C16_REMOVE_GONE(table, mapper_mac, generation)) /*@C16.remove-gone*/
__CPROVER_ensures(C16_REMOVE_GJ(table, mapper_mac, generation, __CPROVER_old(table->entries[g_j]))) /*@C16.remove-others*/
;

#define C16_UPD_GJ(t, e0, count0) (!GJ_OK || (t) == NULL || (v_entry_same_v((t)->entries[g_j], (e0)) && (t)->count == (count0)))
void session_table_update_complete_status(session_table *table)
__CPROVER_requires(table == NULL || ST_WF_NOFLAG(table))
__CPROVER_requires(GJ_OK)
__CPROVER_assigns(table != NULL: table->all_complete)
__CPROVER_ensures(table == NULL || ST_WF(table)) /*@C16.update-wf*/
;

bool session_table_is_empty(session_table *table)
__CPROVER_requires(table == NULL || ST_WF_NOFLAG(table))
__CPROVER_assigns()
__CPROVER_ensures(__CPROVER_return_value == (table == NULL || v_st_size_v(*table) == 0)) /*@C16.is-empty*/
;

bool session_table_all_complete(session_table *table)
__CPROVER_requires(table == NULL || ST_WF(table))
__CPROVER_assigns()
__CPROVER_ensures(__CPROVER_return_value == (table == NULL || v_st_allc_v(*table))) /*@C16.all-complete*/
;

void session_table_clear(session_table *table)
__CPROVER_requires(table == NULL || V_RW_OK(table, sizeof(session_table)))
__CPROVER_assigns(table != NULL: *table)
__CPROVER_ensures(table == NULL || (ST_WF(table) && table->count == 0 && table->all_complete)) /*@C16.clear*/
;

/* =============================== C11: session-event classification ============================== */
/* full key uniqueness over constant index pairs (cheap, unlike a symbolic ghost index) */
#define V_UQ2_(i) && v_st_unique_with_i(t, i)
static inline bool v_st_unique_with_i(const session_table *t, int i) {
    return !t->entries[i].valid ||
           (true
#define V_UQ3_(j) && ((j) <= i || !(t->entries[j].valid && v_mac_eq(t->entries[j].mapper_mac, t->entries[i].mapper_mac) && \
                      t->entries[j].generation == t->entries[i].generation))
            V_REP16(V_UQ3_));
}
static inline bool v_st_unique_all(const session_table *t) { return true V_REP16(V_UQ2_); }
/* "a session with the same mapper and generation is known under a different sequence number" */
#define V_CHG_(i) || (t->entries[i].valid && v_key_eq(&t->entries[i], mac, gen) && t->entries[i].seq_number != xid)
static inline bool v_st_known_other_seq(const session_table *t, const uint8_t *mac, uint16_t gen, uint16_t xid) {
    return false V_REP16(V_CHG_);
}

int derive_session_event(const void *frame, session_table *table, const uint8_t *our_mac)
__CPROVER_requires(table == NULL || ST_WF_NOFLAG(table))
__CPROVER_requires(our_mac == NULL || V_R_OK(our_mac, 6))
__CPROVER_requires(GJ_OK)
__CPROVER_assigns()
__CPROVER_ensures(__CPROVER_return_value >= -1 && __CPROVER_return_value <= 7) /*@C11.range*/
__CPROVER_ensures(frame != NULL || __CPROVER_return_value == -1) /*@C11.null-frame*/
;

/* =============================== C14: mapping-session timers ==================================== */
#define PRE_mstate(m) ((m) == NULL || V_RW_OK((m), sizeof(mapping_state)))

void mapping_reset_charge(mapping_state *mstate)
__CPROVER_requires(PRE_mstate(mstate))
__CPROVER_assigns(mstate != NULL: mstate->ctc, mstate->charge_timeout_ts)
__CPROVER_ensures(mstate == NULL || (mstate->ctc == 0 && mstate->charge_timeout_ts == 0)) /*@C14.reset-charge*/
;
void mapping_on_charge(mapping_state *mstate)
__CPROVER_requires(PRE_mstate(mstate))
__CPROVER_assigns(mstate != NULL: mstate->ctc, mstate->charge_timeout_ts)
__CPROVER_ensures(mstate == NULL || (mstate->ctc == (uint8_t)(__CPROVER_old(mstate->ctc) + 1) && mstate->charge_timeout_ts == v_now_s() + 1)) /*@C14.on-charge*/
;
#define C14_CHECK_CHARGE(m, ret, c0, ts0) \
    ((m) == NULL ? !(ret) : ((ret) == ((ts0) != 0 && v_now_s() >= (ts0)) && \
                             ((ret) ? ((m)->ctc == 0 && (m)->charge_timeout_ts == 0) : ((m)->ctc == (c0) && (m)->charge_timeout_ts == (ts0)))))
bool mapping_check_charge_timeout(mapping_state *mstate)
__CPROVER_requires(PRE_mstate(mstate))
__CPROVER_assigns(mstate != NULL: mstate->ctc, mstate->charge_timeout_ts)
__CPROVER_ensures(C14_CHECK_CHARGE(mstate, __CPROVER_return_value, __CPROVER_old(mstate->ctc), __CPROVER_old(mstate->charge_timeout_ts))) /*@C14.check-charge*/
;
#define C14_CHECK_INACTIVE(m, ret) ((m) == NULL ? !(ret) : (ret) == ((m)->inactive_timeout_ts != 0 && v_now_s() >= (m)->inactive_timeout_ts))
bool mapping_check_inactive_timeout(mapping_state *mstate)
__CPROVER_requires(PRE_mstate(mstate))
__CPROVER_assigns()
__CPROVER_ensures(C14_CHECK_INACTIVE(mstate, __CPROVER_return_value)) /*@C14.check-inactive*/
;
void mapping_reset_inactive_timeout(mapping_state *mstate)
__CPROVER_requires(PRE_mstate(mstate))
__CPROVER_assigns(mstate != NULL: mstate->inactive_timeout_ts)
__CPROVER_ensures(mstate == NULL || mstate->inactive_timeout_ts == v_now_s() + 30) /*@C14.inactive-deadline*/
;

/* =============================== C12 / C14 / C16: periodic tick ================================= */
#define PRE_tick_autom(a, extra_size) ((a) == NULL || (PRE_switch(a) && ((a)->extra == NULL || V_RW_OK((a)->extra, (extra_size)))))
void automata_tick(automata *mapping, automata *enumeration, session_table *sessions, const lltd_automata_tick_port *port)
__CPROVER_requires(PRE_tick_autom(mapping, sizeof(mapping_state)))
__CPROVER_requires(PRE_tick_autom(enumeration, sizeof(band_state)))
__CPROVER_requires(enumeration == NULL || enumeration->extra == NULL || BAND_OK((band_state *)enumeration->extra))
__CPROVER_requires(sessions == NULL || ST_WF(sessions))
__CPROVER_requires(GJ_OK)
__CPROVER_requires(port == NULL || (V_R_OK(port, sizeof(*port)) && (port->last_hello_tx_ms == NULL || V_RW_OK(port->last_hello_tx_ms, 8))))
__CPROVER_assigns(g_led;
    mapping != NULL: mapping->current_state, mapping->last_ts;
    mapping != NULL && mapping->extra != NULL: __CPROVER_object_whole(mapping->extra);
    enumeration != NULL: enumeration->current_state, enumeration->last_ts;
    enumeration != NULL && enumeration->extra != NULL: __CPROVER_object_whole(enumeration->extra);
    sessions != NULL: *sessions;
    port != NULL && port->last_hello_tx_ms != NULL: *port->last_hello_tx_ms)
__CPROVER_ensures(g_led.hello_periodic <= __CPROVER_old(g_led.hello_periodic) + 1) /*@C12.at-most-one*/
__CPROVER_ensures(sessions == NULL || ST_WF(sessions)) /*@C16.tick-wf*/
;
#include "v_nocheck_pop.h"

#endif
