/* automata_contracts.h — contracts for lltdAutomata.c (on forward declarations; the repository file is
 * included unmodified after this header).  Every clause is a macro so that the SAME text is
 *   (a) the __CPROVER_requires / __CPROVER_ensures clause enforced by DFCC,
 *   (b) what callers assume when the function is replaced by its contract,
 *   (c) the run-time check of the native replay build.
 * "old" values are explicit macro parameters (bound to __CPROVER_old(..) in the contract and to the
 * harness's snapshot in the replay build).  Tags: / *@Cxx.name* / on the clause line.
 */
#ifndef V_AUTOMATA_CONTRACTS_H
#define V_AUTOMATA_CONTRACTS_H

#include "v_ghost.h"
#include "v_spec.h"
#include "lltdAutomata.h"

/* =============================== C13: RepeatBand =============================================== */
#define BAND_OK(b)      ((b)->Ni >= 45u && (b)->Ni <= 10000u)
#define PRE_band(b)     ((b) == NULL || (V_RW_OK((b), sizeof(band_state)) && BAND_OK(b)))

#define C13_NI_FORMULA(b, r0, begun0, ni0) \
    ((b) == NULL || (((r0) > 0u && (begun0)) ? (b)->Ni == v_spec_ni(r0) : (b)->Ni == (ni0)))
#define C13_NI_RANGE(b)            ((b) == NULL || BAND_OK(b))
#define C13_R_RESET(b)             ((b) == NULL || (b)->r == 0u)
#define C13_BLOCK_DEADLINE(b)      ((b) == NULL || (b)->block_timeout_ts == v_now_ms() + 300u)
#define C13_UPD_REST(b, begun0, h0) ((b) == NULL || ((b)->begun == (begun0) && (b)->hello_timeout_ts == (h0)))

void band_update_stats(band_state *band)
__CPROVER_requires(PRE_band(band))
__CPROVER_assigns(band != NULL: *band; g_led)
__CPROVER_ensures(C13_NI_FORMULA(band, __CPROVER_old(band->r), __CPROVER_old(band->begun), __CPROVER_old(band->Ni))) /*@C13.ni-formula*/
__CPROVER_ensures(C13_NI_RANGE(band)) /*@C13.ni-range*/
__CPROVER_ensures(C13_R_RESET(band)) /*@C13.r-reset*/
__CPROVER_ensures(C13_BLOCK_DEADLINE(band)) /*@C13.block-deadline*/
__CPROVER_ensures(C13_UPD_REST(band, __CPROVER_old(band->begun), __CPROVER_old(band->hello_timeout_ts))) /*@C13.update-rest*/
;

#define C13_INTERVAL(b, ret)       ((b) == NULL ? (ret) == 0u : ((ret) == (b)->hello_timeout_ts && (ret) == v_now_ms() + v_spec_interval((b)->Ni)))
#define C13_CHOOSE_REST(b, ni0, r0, begun0, blk0) \
    ((b) == NULL || ((b)->Ni == (ni0) && (b)->r == (r0) && (b)->begun == (begun0) && (b)->block_timeout_ts == (blk0)))

uint64_t band_choose_hello_time(band_state *band)
__CPROVER_requires(PRE_band(band))
__CPROVER_assigns(band != NULL: *band; g_led)
__CPROVER_ensures(C13_INTERVAL(band, __CPROVER_return_value)) /*@C13.interval*/
__CPROVER_ensures(C13_CHOOSE_REST(band, __CPROVER_old(band->Ni), __CPROVER_old(band->r), __CPROVER_old(band->begun), __CPROVER_old(band->block_timeout_ts))) /*@C13.choose-rest*/
;

#define C13_DOHELLO(b, ni0, r0, blk0) \
    ((b) == NULL || ((b)->begun && (b)->hello_timeout_ts == v_now_ms() + v_spec_interval((b)->Ni) && \
                     (b)->Ni == (ni0) && (b)->r == (r0) && (b)->block_timeout_ts == (blk0)))

void band_do_hello(band_state *band)
__CPROVER_requires(PRE_band(band))
__CPROVER_assigns(band != NULL: *band; g_led)
__CPROVER_ensures(C13_DOHELLO(band, __CPROVER_old(band->Ni), __CPROVER_old(band->r), __CPROVER_old(band->block_timeout_ts))) /*@C13.do-hello*/
;

#define C13_HEARD(b, ni0, r0, begun0, h0, blk0) \
    ((b) == NULL || ((b)->r == (uint32_t)((r0) + 1u) && (b)->begun == ((begun0) || (uint32_t)((r0) + 1u) >= 10u) && \
                     (b)->Ni == (ni0) && (b)->hello_timeout_ts == (h0) && (b)->block_timeout_ts == (blk0)))

void band_on_hello_received(band_state *band)
__CPROVER_requires(PRE_band(band))
__CPROVER_assigns(band != NULL: *band)
__CPROVER_ensures(C13_HEARD(band, __CPROVER_old(band->Ni), __CPROVER_old(band->r), __CPROVER_old(band->begun), __CPROVER_old(band->hello_timeout_ts), __CPROVER_old(band->block_timeout_ts))) /*@C13.hello-heard*/
;

#define C13_INIT(b) \
    ((b) == NULL || ((b)->Ni == 45u && (b)->r == 0u && !(b)->begun && (b)->hello_timeout_ts == 0u && \
                     (b)->block_timeout_ts == v_now_ms() + 300u))

void band_init_stats(band_state *band)
__CPROVER_requires(band == NULL || V_RW_OK(band, sizeof(band_state)))
__CPROVER_assigns(band != NULL: *band; g_led)
__CPROVER_ensures(C13_INIT(band)) /*@C13.init*/
;

/* =============================== automaton shape (memory safety of the lookup) =================== */
#define AUTOM_SHAPE(a) \
    (V_RW_OK((a), sizeof(automata)) && (a)->transitions_no <= MAX_TRANSITIONS && (a)->current_state < MAX_STATES && \
     (a)->states_no <= MAX_STATES)

/* states and successor states stay below the number of states: needed so that the lookup of the state
 * record is in bounds after any number of steps */
static inline bool v_autom_closed(const automata *a) {
    if (a->states_no > MAX_STATES || a->current_state >= a->states_no || a->transitions_no > MAX_TRANSITIONS) return false;
    for (int i = 0; i < MAX_TRANSITIONS; i++) {
        if (i < a->transitions_no && a->transitions_table[i].to >= a->states_no) return false;
    }
    return true;
}

/* =============================== C14 / C15: automaton step ====================================== */
#define PRE_switch(a)  (AUTOM_SHAPE(a) && v_autom_closed(a))

/* mapping engine, from the statement of C14.  States 0 idle, 1 Command, 2 Emit.  tmo = the automaton's own
 * timeout of s0 (checked separately to be non-zero and <= 30 for the active states). */
static inline bool v_mapping_step_ok(uint8_t s0, int input, uint64_t elapsed, short tmo, uint8_t s1) {
    if (s0 != 0 && tmo != 0 && elapsed > (uint64_t)tmo) {
        /* timed out: back to idle; only a Discover may reopen a session in that same step */
        return s1 == 0 || (input == 0x00 && s1 == 1);
    }
    if (input == 0x00) return s1 == (s0 == 0 ? 1 : s0);          /* Discover opens a session          */
    if (input == 0x02) return s1 == (s0 == 1 ? 2 : s0);          /* Emit: Command -> Emit             */
    if (input == -3)   return s1 == (s0 == 2 ? 1 : s0);          /* emission complete: Emit -> Command */
    if (input == 0x08) return s1 == 0;                           /* Reset ends the session            */
    if (input == -1)   return s1 == 0;                           /* explicit timeout event (tick)     */
    return s1 == s0;                                             /* every other frame: unchanged      */
}

/* session automaton, from the statement of C15.  States 0 Temporary, 1 Nascent, 2 Pending, 3 Complete. */
static inline bool v_session_step_ok(uint8_t s0, int ev, uint64_t elapsed, short tmo, uint8_t s1) {
    if (tmo != 0 && elapsed > (uint64_t)tmo) return s1 == 1;     /* inactivity: every state -> Nascent */
    if (ev == 0x01) return s1 == 1;                              /* Reset: every state -> Nascent      */
    switch (s0) {
        case 1: /* Nascent */
            if (ev == 0x02) return s1 == 2;                      /* non-acknowledging Discover         */
            if (ev == 0x03) return s1 == 3;                      /* acknowledging Discover             */
            if (ev == 0x00) return s1 == 0;                      /* conflicting Discover               */
            return s1 == 1;
        case 2: /* Pending */
            if (ev == 0x03 || ev == 0x05) return s1 == 3;
            return s1 == 2;
        case 3: /* Complete */
            if (ev == 0x04) return s1 == 2;
            return s1 == 3;
        case 0: /* Temporary */
            if (ev == 0x07 || ev == 0x06) return s1 == 1;
            return s1 == 0;
        default:
            return false;
    }
}

#define STEP_FRAME(a)  ((a)->last_ts == v_now_s() && v_autom_closed(a))

/* generic step relation (table-independent): without a timeout on entry the successor is the target of a
 * transition matching (state, input), or the state itself when none matches.  Deliberately silent on WHICH
 * of several matching transitions wins, and on the timed-out case (that is decided at the lemma harnesses
 * against the real tables).  Strong enough for the recursive call after a timeout. */
static inline bool v_autom_step_rel(const automata *a, uint8_t s0, int input, uint8_t s1) {
    bool any = false, hit = false;
    for (int i = 0; i < MAX_TRANSITIONS; i++) {
        if (i < a->transitions_no && a->transitions_table[i].from == s0 && a->transitions_table[i].with == input) {
            any = true;
            if (a->transitions_table[i].to == s1) hit = true;
        }
    }
    return any ? hit : (s1 == s0);
}
#define STEP_TIMED_OUT(a, s0, last0, now1) \
    ((a)->states_table[s0].timeout != 0 && (uint64_t)((now1) - (last0)) > (uint64_t)(a)->states_table[s0].timeout)
#define STEP_GENERIC(a, s0, input, last0, now1) \
    (STEP_TIMED_OUT(a, s0, last0, now1) || v_autom_step_rel((a), (s0), (input), (a)->current_state))

automata *switch_state_mapping(automata *autom, int input, char *debug)
__CPROVER_requires(PRE_switch(autom))
__CPROVER_assigns(autom->current_state, autom->last_ts, g_led)
__CPROVER_ensures(__CPROVER_return_value == autom) /*@C14.ret C01.ret*/
__CPROVER_ensures(STEP_GENERIC(autom, __CPROVER_old(autom->current_state), input, __CPROVER_old(autom->last_ts), v_next_s(__CPROVER_old(g_led.clk_reads), __CPROVER_old(g_led.clk_s)))) /*@C14.step-generic*/
__CPROVER_ensures(STEP_FRAME(autom)) /*@C14.last-ts C01.closed*/
;

automata *switch_state_session(automata *autom, int input, char *debug)
__CPROVER_requires(PRE_switch(autom))
__CPROVER_assigns(autom->current_state, autom->last_ts, g_led)
__CPROVER_ensures(__CPROVER_return_value == autom) /*@C15.ret C01.ret*/
__CPROVER_ensures(STEP_GENERIC(autom, __CPROVER_old(autom->current_state), input, __CPROVER_old(autom->last_ts), v_next_s(__CPROVER_old(g_led.clk_reads), __CPROVER_old(g_led.clk_s)))) /*@C15.step-generic*/
__CPROVER_ensures(STEP_FRAME(autom)) /*@C15.last-ts C01.closed*/
;

automata *switch_state_enumeration(automata *autom, int input, char *debug)
__CPROVER_requires(PRE_switch(autom))
__CPROVER_assigns(autom->current_state, autom->last_ts, g_led)
__CPROVER_ensures(__CPROVER_return_value == autom) /*@C12.ret C01.ret*/
__CPROVER_ensures(STEP_FRAME(autom)) /*@C12.last-ts C01.closed*/
;

/* =============================== C18: constructors =============================================== */
#define CTOR_BASE(ret, nstates, s0) \
    ((ret) == NULL || (V_RW_OK((ret), sizeof(automata)) && (ret)->states_no == (nstates) && v_autom_closed(ret) && \
                       (ret)->current_state == (s0) && (ret)->last_ts <= v_now_s()))
#define MSTATE_INIT(m)  ((m)->ctc == 0 && (m)->charge_timeout_ts == 0 && (m)->inactive_timeout_ts == 0)
#define BSTATE_INIT(b)  ((b)->Ni == 45u && (b)->r == 0u && !(b)->begun && (b)->hello_timeout_ts == 0 && (b)->block_timeout_ts == 0)
#define C18_CTOR_MAPPING(ret) \
    (CTOR_BASE(ret, 3, 0) && ((ret) == NULL || (ret)->extra == NULL || MSTATE_INIT((mapping_state *)(ret)->extra)))
#define C18_CTOR_ENUM(ret) \
    (CTOR_BASE(ret, 3, 0) && ((ret) == NULL || (ret)->extra == NULL || BSTATE_INIT((band_state *)(ret)->extra)))
#define C18_CTOR_SESSION(ret) \
    (CTOR_BASE(ret, 4, 1) && ((ret) == NULL || (ret)->extra == NULL))
/* nothing leaked: live allocations grew by exactly what the result holds */
#define C18_CTOR_LEDGER(ret, live0) \
    (g_led.live == (live0) + ((ret) != NULL ? 1u : 0u) + (((ret) != NULL && (ret)->extra != NULL) ? 1u : 0u))

automata *init_automata_mapping(void)
__CPROVER_assigns(g_led)
__CPROVER_ensures(C18_CTOR_MAPPING(__CPROVER_return_value)) /*@C18.ctor-mapping*/
__CPROVER_ensures(C18_CTOR_LEDGER(__CPROVER_return_value, __CPROVER_old(g_led.live))) /*@C18.ctor-ledger C19.ctor-ledger*/
;
automata *init_automata_enumeration(void)
__CPROVER_assigns(g_led)
__CPROVER_ensures(C18_CTOR_ENUM(__CPROVER_return_value)) /*@C18.ctor-enumeration*/
__CPROVER_ensures(C18_CTOR_LEDGER(__CPROVER_return_value, __CPROVER_old(g_led.live))) /*@C18.ctor-ledger C19.ctor-ledger*/
;
automata *init_automata_session(void)
__CPROVER_assigns(g_led)
__CPROVER_ensures(C18_CTOR_SESSION(__CPROVER_return_value)) /*@C18.ctor-session*/
__CPROVER_ensures(C18_CTOR_LEDGER(__CPROVER_return_value, __CPROVER_old(g_led.live))) /*@C18.ctor-ledger C19.ctor-ledger*/
;

#endif
