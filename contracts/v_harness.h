/* v_harness.h — glue shared by all harnesses (verification and native replay builds). */
#ifndef V_HARNESS_H
#define V_HARNESS_H

#include "v_ghost.h"

#ifdef V_REPLAY
#include <stdio.h>
#include <stdlib.h>
#include <string.h>
/* contract syntax is inert in the native build; the same clause macros are evaluated by the harness */
#define __CPROVER_requires(...)
#define __CPROVER_ensures(...)
#define __CPROVER_assigns(...)
#define __CPROVER_frees(...)
/* named nondeterministic input record of harness function fn; the generated replay_inputs.h defines
 * V_REPLAY_ASSIGN_<fn>(in) for every harness function of the file (empty for all but the replayed one) */
#define V_INPUT(fn, type, var) type var; memset(&var, 0, sizeof(var)); V_REPLAY_ASSIGN_##fn(var)
#define V_CANARY(tag) do { } while (0)
#define V_RW_OK(p, n) ((p) != NULL)
#define V_R_OK(p, n) ((p) != NULL)
#define V_IS_FRESH(p, n) ((p) != NULL)
#else
#define V_INPUT(fn, type, var) type var
/* reachability canary: this obligation MUST FAIL, otherwise the harness is vacuous */
#define V_CANARY(tag) __CPROVER_assert(0, "canary." tag)
#define V_RW_OK(p, n) __CPROVER_rw_ok((p), (n))
#define V_R_OK(p, n) __CPROVER_r_ok((p), (n))
#define V_IS_FRESH(p, n) __CPROVER_is_fresh((p), (n))
#endif

/* A buffer handed to the code under proof is an object OF ITS OWN with exactly n bytes, filled from the input record.
 * (As a member of the input record an out-of-bounds access lands in the neighbouring member and is not flagged - that hid
 * the station-walk finding of derive_session_event for a while.) */
#ifndef V_REPLAY
void *malloc(__CPROVER_size_t);
void *memcpy(void *, const void *, __CPROVER_size_t);
#endif
#define V_EXACT_OBJECT(ptr, src, n) uint8_t *ptr = (uint8_t *)malloc(n); V_ASSUME(ptr != (uint8_t *)0); memcpy(ptr, (src), (n))

/* a stack object whose padding must be defined in the native build */
#ifdef V_REPLAY
#define V_ZERO(x) memset(&(x), 0, sizeof(x))
#else
#define V_ZERO(x) do { } while (0)
#endif

/* type invariant of a _Bool read from the nondeterministic input record */
#define V_BOOL_OK(lv) (*(const uint8_t *)&(lv) <= 1)

/* post-state clause: a named obligation in both builds */
#define V_POST(tag, cond) V_REQUIRE(tag, cond)

/* standard prologue: bind configuration, restrict to the property's domain, reset the ledger */
#define V_ENV(incfg) do { g_cfg = (incfg); V_ASSUME(v_cfg_ok(&g_cfg)); v_env_reset(); } while (0)

#endif
