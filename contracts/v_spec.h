/* v_spec.h — specification functions written from the property statements and the MS-LLTD wire layouts
 * with explicit byte offsets (never through the repository's packed structs).
 *
 * v_frame_check() is the precondition of lltd_port_send_frame: every clause is a named obligation at
 * every call site of every sender (C02/C03/C04/C06/C07/C08/C10).
 */
#ifndef V_SPEC_H
#define V_SPEC_H

#include "v_ghost.h"

#include "v_nocheck_push.h"

/* effective limits the core can know about */
static inline size_t v_eff_mtu(void) { return g_cfg.mtu_fail ? 1500u : g_cfg.mtu; }

static inline bool v_own_mac(const uint8_t *p) {
    static const uint8_t zero[6] = {0, 0, 0, 0, 0, 0};
    return g_cfg.mac_fail ? v_mac_eq(p, zero) : v_mac_eq(p, g_cfg.mac.a);
}

/* ---- C13 spec functions ------------------------------------------------------------------------- */
/* min(NMAX, ALPHA * r^2) over the naturals, NMAX = 10000, ALPHA = 45: 45*14^2 = 8820, 45*15^2 = 10125 */
static inline uint32_t v_spec_ni(uint32_t r) { return (r >= 15u) ? 10000u : 45u * r * r; }
/* max(6, ceil(TXC * Ni * 20 / (3 * GAMMA))) = max(6, ceil(80 Ni / 30)), Ni <= 10000 */
static inline uint64_t v_spec_interval(uint32_t ni) {
    uint64_t num = (uint64_t)80u * ni;
    uint64_t q = num / 30u + ((num % 30u) ? 1u : 0u);
    return q < 6u ? 6u : q;
}

/* ---- C08 per-request relation (spec level) ------------------------------------------------------ */
static inline size_t v_lt_len(size_t size, size_t off, size_t P) { size_t rem = size > off ? size - off : 0; return rem > P ? P : rem; }
static inline bool v_lt_more(size_t size, size_t off, size_t P) { size_t rem = size > off ? size - off : 0; return rem > P; }

/* ---- Hello property list ----------------------------------------------------------------------- */
#define V_HELLO_TLV_OFF 46u
#define V_HELLO_MAX_TLVS 22u

/* legal length of a property of the given type inside a Hello; -1 = type not allowed */
static inline bool v_tlv_len_legal(uint8_t type, uint8_t len) {
    switch (type) {
        case 0x01: return len == 6;
        case 0x02: return len == 4;
        case 0x03: return len == 4;
        case 0x04: return len == 1;
        case 0x05: return len == 6;
        case 0x06: return len <= 32;
        case 0x07: return len == 4;
        case 0x08: return len == 16;
        case 0x09: return len == 2;
        case 0x0A: return len == 8;
        case 0x0C: return len == 4;
        case 0x0D: return len == 4;
        case 0x0E: return len == 0;     /* large property: announced empty, fetched by QueryLargeTlv */
        case 0x0F: return len <= 32;
        case 0x10: return len <= 64;
        case 0x11: return len == 0;
        case 0x12: return len == 16;
        case 0x13: return len <= 64;
        case 0x14: return len == 4;
        default:   return false;
    }
}

/* value check of one property against the configuration (C04) */
static inline void v_tlv_value_check(const uint8_t *v, uint8_t type, uint8_t len) {
    switch (type) {
        case 0x01:
            V_REQUIRE("C04.hostid: host identifier = interface hardware address", v_own_mac(v));
            break;
        case 0x02:
            V_REQUIRE("C04.characteristics: flags big-endian in the upper 16 bits",
                      v_be32(v) == ((g_cfg.flags & 0xFFFFu) << 16));
            break;
        case 0x03:
            V_REQUIRE("C04.iftype: interface type big-endian",
                      v_be32(v) == (g_cfg.iftype_fail ? 0u : g_cfg.iftype));
            break;
        case 0x04:
            V_REQUIRE("C04.wifi-mode", v[0] == g_cfg.wifi_mode);
            break;
        case 0x05:
            V_REQUIRE("C04.bssid", v_mac_eq(v, g_cfg.bssid));
            break;
        case 0x06:
            V_REQUIRE("C04.ssid-len: SSID length = min(reported, 32)",
                      len == (g_cfg.ssid_len > 32 ? 32 : g_cfg.ssid_len));
            V_REQUIRE("C04.ssid-bytes", !(g_k < len) || v[g_k] == g_cfg.ssid[g_k]);
            break;
        case 0x07:
            V_REQUIRE("C04.ipv4", v_be32(v) == (g_cfg.ipv4_fail ? 0u : g_cfg.ipv4_be));
            break;
        case 0x08:
            V_REQUIRE("C04.ipv6", !(g_k < 16) || v[g_k] == (g_cfg.ipv6_fail ? 0 : g_cfg.ipv6[g_k]));
            break;
        case 0x09:
            V_REQUIRE("C04.wifi-rate: big-endian", v_be16(v) == (g_cfg.rate_fail ? 0 : g_cfg.rate));
            break;
        case 0x0A:
            V_REQUIRE("C04.perf-counter: 1 000 000 big-endian 64-bit",
                      v_be32(v) == 0u && v_be32(v + 4) == 1000000u);
            break;
        case 0x0C:
            V_REQUIRE("C04.link-speed: big-endian", v_be32(v) == (g_cfg.speed_fail ? 0u : g_cfg.speed));
            break;
        case 0x0D:
            V_REQUIRE("C04.rssi: sign-extended big-endian",
                      v_be32(v) == (uint32_t)(int32_t)(g_cfg.rssi_fail ? 0 : g_cfg.rssi));
            break;
        case 0x0F:
            V_REQUIRE("C04.hostname-len: machine name length = min(reported, 32)",
                      len == (g_cfg.hostname_len > 32 ? 32 : g_cfg.hostname_len));
            V_REQUIRE("C04.hostname-bytes", !(g_k < len) || v[g_k] == g_cfg.hostname[g_k]);
            break;
        case 0x14:
            V_REQUIRE("C04.qos: L2Fwd|VLAN|PrioTag in the upper 16 bits", v_be32(v) == 0xE0000000u);
            break;
        default:
            break;
    }
}

#define V_BIT(t) (1u << (t))
#define V_HELLO_REQUIRED (V_BIT(0x01) | V_BIT(0x02) | V_BIT(0x03) | V_BIT(0x07) | V_BIT(0x08) | \
                          V_BIT(0x0A) | V_BIT(0x0C) | V_BIT(0x0F) | V_BIT(0x14))
#define V_HELLO_WIFI     (V_BIT(0x04) | V_BIT(0x05) | V_BIT(0x06) | V_BIT(0x09) | V_BIT(0x0D))
#define V_HELLO_OPTIONAL (V_BIT(0x0E) | V_BIT(0x11))

static inline void v_hello_check(const uint8_t *f, size_t len) {
    V_REQUIRE("C02.hello.min-len", len >= V_HELLO_TLV_OFF + 1);
    size_t off = V_HELLO_TLV_OFF;
    uint32_t seen = 0;
    bool ended = false;
    for (unsigned n = 0; n < V_HELLO_MAX_TLVS; n++) {
        if (ended) break;
        V_REQUIRE("C02.hello.parses: property list stays inside the frame", off < len);
        if (off >= len) { ended = true; break; }
        uint8_t type = f[off];
        if (type == 0) {
            V_REQUIRE("C02.hello.end-marker-last: end marker is the last byte", off + 1 == len);
            ended = true;
            break;
        }
        V_REQUIRE("C02.hello.parses: property header inside the frame", off + 2 <= len);
        if (off + 2 > len) { ended = true; break; }
        uint8_t l = f[off + 1];
        V_REQUIRE("C02.hello.parses: property value inside the frame", off + 2 + (size_t)l < len);
        if (off + 2 + (size_t)l >= len) { ended = true; break; }
        V_REQUIRE("C02.hello.legal-length: legal length for the property type", v_tlv_len_legal(type, l));
        V_REQUIRE("C02.hello.no-type-twice", type >= 32 || !((seen >> type) & 1u));
        V_REQUIRE("C02.hello.hostid-first", n != 0 || type == 0x01);
        v_tlv_value_check(f + off + 2, type, l);
        if (type < 32) seen |= (1u << type);
        off += 2 + (size_t)l;
    }
    V_REQUIRE("C02.hello.parses: end marker reached", ended);
    g_led.hello_seen_mask = seen;
    V_REQUIRE("C04.hello.required-set: every mandatory property present",
              (seen & V_HELLO_REQUIRED) == V_HELLO_REQUIRED);
    V_REQUIRE("C04.hello.wifi-iff: wireless properties iff the interface is wireless",
              g_cfg.wifi ? ((seen & V_BIT(0x04)) != 0 && (seen & V_BIT(0x06)) != 0 &&
                            (seen & V_BIT(0x09)) != 0 && (seen & V_BIT(0x0D)) != 0 &&
                            (((seen & V_BIT(0x05)) != 0) == !g_cfg.bssid_fail))
                         : (seen & V_HELLO_WIFI) == 0);
    V_REQUIRE("C04.hello.nothing-else", (seen & ~(V_HELLO_REQUIRED | V_HELLO_WIFI | V_HELLO_OPTIONAL)) == 0);
}

/* ---- the transmit oracle ------------------------------------------------------------------------ */
static inline void v_frame_check(const uint8_t *f, size_t len) {
    V_REQUIRE("C02.nonnull", f != NULL);
    V_REQUIRE("C02.min-len: at least the 32-byte base header", len >= 32);
    V_REQUIRE("C02.mtu-bound: frame no longer than the interface MTU", len <= v_eff_mtu());
#ifndef V_REPLAY
    V_REQUIRE("C01.tx-readable: transmit length inside the buffer", __CPROVER_r_ok(f, len));
#endif
    V_REQUIRE("C02.ethertype", f[12] == 0x88 && f[13] == 0xD9);
    V_REQUIRE("C02.version", f[14] == 1);
    V_REQUIRE("C02.reserved-zero", f[16] == 0);
    V_REQUIRE("C02.real-source-own: own address as real source", v_own_mac(f + 24));
    uint8_t tos = f[15], op = f[17];
    V_REQUIRE("C02.tos: a discovery service", tos == 0 || tos == 1);
    V_REQUIRE("C02.opcode: an opcode a responder may send",
              op == 0x01 || op == 0x03 || op == 0x04 || op == 0x05 || op == 0x07 || op == 0x0C);

    if (op == 0x03 || op == 0x04 || op == 0x05) {
        V_REQUIRE("C02.len-fixed: Probe/Train/ACK are exactly 32 bytes", len == 32);
        V_REQUIRE("C02.tos-topology", tos == 0);
    }
    if (op == 0x07) {
        V_REQUIRE("C02.queryresp.len-hdr", len >= 34);
        uint16_t w = v_be16(f + 32);
        V_REQUIRE("C02.queryresp.len: 34 + 20 * descriptor count", len == 34u + 20u * (size_t)(w & 0x7FFFu));
        V_REQUIRE("C02.tos-topology", tos == 0);
    }
    if (op == 0x0C) {
        V_REQUIRE("C02.qltr.len-hdr", len >= 34);
        uint16_t w = v_be16(f + 32);
        V_REQUIRE("C02.qltr.len: 34 + payload length", len == 34u + (size_t)(w & 0x3FFFu));
        V_REQUIRE("C02.qltr.reserved-bit", (w & 0x4000u) == 0);
    }
#ifdef V_HELLO_DECODE
    if (op == 0x01) {
        v_hello_check(f, len);      /* whole-frame decoder: exceeded time and memory limits on every formulation tried */
    }
#else
    if (op == 0x01) {
        /* compositional form: the property list is the chain the writers' contracts describe (each writer proved
         * separately to emit a well-formed property carrying the configured attribute, tlv_contracts.h) */
        V_REQUIRE("C02.hello.parses: the property list ends with the end marker, which is the last byte",
                  g_hc.ended && len == g_hc.end && len >= V_HELLO_TLV_OFF + 1 && f[len - 1] == 0);
        V_REQUIRE("C02.hello.hostid-first", g_hc.count >= 1 && g_hc.first == 0x01);
        V_REQUIRE("C04.hello.required-set: every mandatory property present", (g_hc.seen & V_HELLO_REQUIRED) == V_HELLO_REQUIRED);
        V_REQUIRE("C04.hello.wifi-iff: wireless properties iff the interface is wireless",
                  g_cfg.wifi ? ((g_hc.seen & V_BIT(0x04)) != 0 && (g_hc.seen & V_BIT(0x06)) != 0 &&
                                (g_hc.seen & V_BIT(0x09)) != 0 && (g_hc.seen & V_BIT(0x0D)) != 0 &&
                                (((g_hc.seen & V_BIT(0x05)) != 0) == !g_cfg.bssid_fail))
                             : (g_hc.seen & V_HELLO_WIFI) == 0);
        V_REQUIRE("C04.hello.nothing-else", (g_hc.seen & ~(V_HELLO_REQUIRED | V_HELLO_WIFI | V_HELLO_OPTIONAL)) == 0);
    }
#endif

    /* ---- request-specific clauses -------------------------------------------------------------- */
    if (g_req.kind == V_K_PROBE) {
        /* expected descriptor: the harness's (standalone sendProbeMsg) or, when an Emit frame is under proof, the
         * next unexecuted descriptor of that frame (index = Probe/Train frames attempted since the Emit began) */
        const uint8_t *e_src = g_req.d_src.a, *e_dst = g_req.d_dst.a;
        uint8_t e_type = g_req.d_type, e_pause = g_req.d_pause, e_ack = g_req.d_ack;
        if (g_req.emit_frame != NULL) {
            size_t idx = (size_t)(g_led.tx_op[3] + g_led.tx_op[4]) - (op == 0x05 ? 1u : 0u);
            V_REQUIRE("C06.descriptor-order: frames follow the descriptors of the Emit, in order", idx < g_req.emit_n);
            e_type = g_req.emit_frame[34 + 14 * idx];
            e_pause = g_req.emit_frame[35 + 14 * idx];
            e_src = g_req.emit_frame + 36 + 14 * idx;
            e_dst = g_req.emit_frame + 42 + 14 * idx;
            e_ack = (idx + 1 == g_req.emit_n);
        }
        if (op != 0x05) {
            V_REQUIRE("C06.probe.kind: Probe for kind 1, Train for kind 0", op == (e_type == 1 ? 0x04 : 0x03));
            V_REQUIRE("C06.probe.eth-src: descriptor source as Ethernet source", v_mac_eq(f + 6, e_src));
            V_REQUIRE("C06.probe.eth-dst: descriptor destination as Ethernet destination", v_mac_eq(f, e_dst));
            V_REQUIRE("C10.probe.real-dst: real destination = the station the probe is sent to", v_mac_eq(f + 18, e_dst));
            V_REQUIRE("C06.probe.seq-zero", f[30] == 0 && f[31] == 0);
            V_REQUIRE("C06.probe.pause-first: the descriptor's pause was waited immediately before the frame",
                      g_led.sleep_last == e_pause && g_led.sleep_at_tx == g_led.tx_attempts);
        } else {
            V_REQUIRE("C06.ack.only-when-requested: ACK only after the last descriptor's frame",
                      e_ack && g_led.last_op != 0x05 && g_led.tx_attempts > g_req.tx_base);
            V_REQUIRE("C06.ack.eth-src-own", v_own_mac(f + 6));
            V_REQUIRE("C06.ack.eth-dst: apparent mapper address", v_mac_eq(f, g_req.mapper_apparent.a));
            V_REQUIRE("C06.ack.real-dst: mapper address", v_mac_eq(f + 18, g_req.mapper_real.a));
            V_REQUIRE("C06.ack.seq: the Emit's sequence number", v_be16(f + 30) == g_req.mapper_seq);
        }
    }
    if (g_req.kind == V_K_HELLO) {
        V_REQUIRE("C03.hello.opcode", op == 0x01);
        V_REQUIRE("C03.hello.single: at most one Hello per Discover", g_led.tx_attempts == g_req.tx_base);
        V_REQUIRE("C03.hello.eth-broadcast", v_mac_bcast(f));
        V_REQUIRE("C03.hello.real-broadcast", v_mac_bcast(f + 18));
        V_REQUIRE("C03.hello.eth-src-own", v_own_mac(f + 6));
        V_REQUIRE("C03.hello.tos: same service as the Discover", tos == g_req.tos);
        V_REQUIRE("C03.hello.seq-zero", f[30] == 0 && f[31] == 0);
        V_REQUIRE("C03.hello.generation: generation of that very Discover", v_be16(f + 32) == g_req.generation);
        V_REQUIRE("C03.hello.current-mapper: Discover's real source", v_mac_eq(f + 34, g_req.real_src.a));
        V_REQUIRE("C03.hello.apparent-mapper: Discover's Ethernet source", v_mac_eq(f + 40, g_req.eth_src.a));
    }
    if (g_req.kind == V_K_QRESP) {
        uint32_t n_exp = g_req.obs_n > g_req.obs_cap ? g_req.obs_cap : g_req.obs_n;
        uint16_t w = v_be16(f + 32);
        V_REQUIRE("C07.resp.count: lists min(observations, per-frame capacity) descriptors", (uint32_t)(w & 0x7FFFu) == n_exp);
        V_REQUIRE("C07.resp.more-flag: says that more remain exactly when they do not fit",
                  ((w & 0x8000u) != 0) == (g_req.obs_n > g_req.obs_cap));
        if (g_j < n_exp && g_j < 8) {
            size_t o = 34 + 20 * g_j;
            struct v_obs e = g_req.obs[g_j];      /* by value: one array select instead of pointers with symbolic offsets */
            V_REQUIRE("C07.resp.descriptor-type: each listed observation as received (type)",
                      f[o] == e.type_be[0] && f[o + 1] == e.type_be[1]);
            V_REQUIRE("C07.resp.descriptor-real: each listed observation as received (real source)", v_mac_eq_at(f, o + 2, e.real.a));
            V_REQUIRE("C07.resp.descriptor-src: each listed observation as received (Ethernet source)", v_mac_eq_at(f, o + 8, e.src.a));
            V_REQUIRE("C07.resp.descriptor-dst: each listed observation as received (Ethernet destination)", v_mac_eq_at(f, o + 14, e.dst.a));
        }
    }
    if (g_req.kind == V_K_QLTV) {
        size_t P = v_eff_mtu() - 34u;
        size_t rem = (g_req.lt_data != NULL && g_req.lt_size > g_req.lt_off) ? g_req.lt_size - g_req.lt_off : 0;
        size_t n_exp = rem > P ? P : rem;
        uint16_t w = v_be16(f + 32);
        bool exact = ((size_t)(w & 0x3FFFu) == n_exp) && (((w & 0x8000u) != 0) == (rem > P));
        bool empty = (w == 0);
        V_REQUIRE("C08.chunk: length = min(what fits, what remains from the offset); 'more' iff bytes remain beyond it",
                  exact || (g_req.lt_fault && empty));
        V_REQUIRE("C02,C08.qlt.payload-within-property: every payload byte the frame declares is a byte of the property - none from beyond its end",
                  (size_t)(w & 0x3FFFu) <= rem && len == 34u + (size_t)(w & 0x3FFFu));
        if (exact && g_k < n_exp) {
            V_REQUIRE("C08.payload: the bytes at the requested offset", f[34 + g_k] == g_req.lt_data[(size_t)g_req.lt_off + g_k]);
        }
    }
    if (g_req.kind == V_K_QRESP || g_req.kind == V_K_QLTV) {
        V_REQUIRE("C07.resp.opcode", op == (g_req.kind == V_K_QRESP ? 0x07 : 0x0C));
        V_REQUIRE("C07.resp.single: one response per request", g_led.tx_attempts == g_req.tx_base);
        V_REQUIRE("C07.resp.eth-src-own", v_own_mac(f + 6));
        V_REQUIRE("C07.resp.seq: the request's sequence number", v_be16(f + 30) == g_req.seq);
        bool bridged = !v_mac_eq(g_req.real_src.a, g_req.eth_src.a);
        V_REQUIRE("C07.resp.dest: to the mapper, broadcast when bridged",
                  bridged ? (v_mac_bcast(f) && v_mac_bcast(f + 18))
                          : (v_mac_eq(f, g_req.real_src.a) && v_mac_eq(f + 18, g_req.real_src.a)));
    }
}
#include "v_nocheck_pop.h"

#endif
