/* v_ghost.h — ghost state shared by contracts, the verification port and the harnesses.
 *
 * Compiled in two modes from the SAME text:
 *   - verification (goto-cc): V_REQUIRE is a named CBMC obligation, V_ASSUME restricts the domain;
 *   - native replay (-DV_REPLAY, gcc + ASan/UBSan): V_REQUIRE is a run-time check that records the
 *     failing obligation tag, V_ASSUME aborts the replay as "input outside the domain".
 *
 * All environment nondeterminism (getter results, allocation / transmit faults, clock advances) is a
 * deterministic function of g_cfg and the ledger counters, so a counterexample is fully described by the
 * harness's named input record and replays natively.
 *
 * Clock (assumption A2): the clock is arbitrary between calls into the core and does not advance during one
 * call; seconds and milliseconds derive from the same instant.  Clock reads are therefore pure (no ghost
 * writes), which keeps contracts of clock-reading functions free of ledger havoc when they are replaced.
 */
#ifndef V_GHOST_H
#define V_GHOST_H

#include <stdbool.h>
#include <stddef.h>
#include <stdint.h>

#include "lltdProtocol.h"

#ifdef V_REPLAY
void v_fail(const char *tag, const char *expr, const char *file, int line);
void v_assume_fail(const char *expr, const char *file, int line);
#define V_REQUIRE(tag, cond) do { if (!(cond)) v_fail(tag, #cond, __FILE__, __LINE__); } while (0)
#define V_ASSUME(cond) do { if (!(cond)) v_assume_fail(#cond, __FILE__, __LINE__); } while (0)
#else
#define V_REQUIRE(tag, cond) __CPROVER_assert((cond), tag)
#define V_ASSUME(cond) __CPROVER_assume(cond)
#endif

#define V_MTU_MIN 576u
#define V_MTU_MAX 9216u
#define V_NAME_MAX 40u      /* host name / SSID bytes the platform may hold (core clamps to 32) */
#define V_ICON_CAP 48u      /* bytes of icon / friendly-name content the model carries          */
#define V_NCLK 12u

/* Spec functions are single return expressions (no loops, no local assignments): DFCC instruments every
 * assignment of every function it sees, and looping spec functions multiplied symex time by 10-30x. */
#define V_REP6(F) F(0) F(1) F(2) F(3) F(4) F(5)
#define V_REP12(F) V_REP6(F) F(6) F(7) F(8) F(9) F(10) F(11)
#define V_REP16(F) F(0) F(1) F(2) F(3) F(4) F(5) F(6) F(7) F(8) F(9) F(10) F(11) F(12) F(13) F(14) F(15)
#define V_REP128(F) F(0) F(1) F(2) F(3) F(4) F(5) F(6) F(7) F(8) F(9) F(10) F(11) F(12) F(13) F(14) F(15) F(16) F(17) F(18) F(19) F(20) F(21) F(22) F(23) F(24) F(25) F(26) F(27) F(28) F(29) F(30) F(31) F(32) F(33) F(34) F(35) F(36) F(37) F(38) F(39) F(40) F(41) F(42) F(43) F(44) F(45) F(46) F(47) F(48) F(49) F(50) F(51) F(52) F(53) F(54) F(55) F(56) F(57) F(58) F(59) F(60) F(61) F(62) F(63) F(64) F(65) F(66) F(67) F(68) F(69) F(70) F(71) F(72) F(73) F(74) F(75) F(76) F(77) F(78) F(79) F(80) F(81) F(82) F(83) F(84) F(85) F(86) F(87) F(88) F(89) F(90) F(91) F(92) F(93) F(94) F(95) F(96) F(97) F(98) F(99) F(100) F(101) F(102) F(103) F(104) F(105) F(106) F(107) F(108) F(109) F(110) F(111) F(112) F(113) F(114) F(115) F(116) F(117) F(118) F(119) F(120) F(121) F(122) F(123) F(124) F(125) F(126) F(127)

/* ---- configuration: what the platform layer supplies for this interface ------------------------- */
struct v_cfg {
    size_t   mtu;            uint8_t mtu_fail;
    ethernet_address_t mac;  uint8_t mac_fail;
    uint32_t flags;
    uint32_t iftype;         uint8_t iftype_fail;
    uint32_t ipv4_be;        uint8_t ipv4_fail;
    uint8_t  ipv6[16];       uint8_t ipv6_fail;
    uint32_t speed;          uint8_t speed_fail;
    uint8_t  hostname[V_NAME_MAX]; size_t hostname_len;      /* reported length, may exceed dst_len */
    uint8_t  wifi;                                           /* wifi mode getter succeeds            */
    uint8_t  wifi_mode;
    uint8_t  bssid[6];       uint8_t bssid_fail;
    uint8_t  ssid[V_NAME_MAX];     size_t ssid_len;
    uint16_t rate;           uint8_t rate_fail;
    int8_t   rssi;           uint8_t rssi_fail;
    uint8_t  icon[V_ICON_CAP];     size_t icon_size;  uint8_t icon_fail;
    uint16_t icon_big;             /* big-icon instance (V_ICON_BIG) only: size of the icon, contents not modelled */
    uint8_t  fname[V_ICON_CAP];    size_t fname_size; uint8_t fname_fail;
    uint8_t  hwid[64];       size_t hwid_len;
    uint32_t alloc_fail_mask;      /* bit k set: the k-th allocation (mod 32) returns NULL */
    uint32_t send_fail_mask;       /* bit k set: the k-th transmit (mod 32) is refused      */
    uint64_t clk_s0;               /* the instant of this call, seconds (arbitrary: time passes BETWEEN calls) */
    uint16_t clk_frac0;            /* milliseconds within that second (< 1000)                                   */
};

/* ---- ledger: what the core did to its environment ------------------------------------------------ */
struct v_led {
    uint32_t live;           /* live allocations                                    */
    uint32_t allocs;         /* allocation attempts                                 */
    uint32_t tx_attempts;    /* calls of lltd_port_send_frame                        */
    uint32_t tx_count;       /* frames accepted for transmission                    */
    uint32_t tx_op[16];      /* attempts per opcode (index = opcode & 15)           */
    /* most recent transmit attempt */
    uint8_t  last_op, last_tos;
    size_t   last_len;
    uint16_t last_seq;
    ethernet_address_t last_eth_src, last_eth_dst, last_real_src, last_real_dst;
    /* first transmit attempt of this call (Probe/Train before the ACK) */
    uint8_t  first_op;
    ethernet_address_t first_eth_src, first_eth_dst, first_real_src, first_real_dst;
    uint32_t sleep_calls;
    uint32_t sleep_last;
    uint32_t sleep_at_tx;    /* tx_attempts value when the last sleep happened      */
    uint64_t clk_s;  uint16_t clk_ms_frac;  uint64_t clk_ms;   /* clk_ms = clk_s*1000 + clk_ms_frac, computed once per advance */
    /* last lltd_port_memcpy */
    const void *cpy_src; void *cpy_dst; size_t cpy_n;
    /* the MTU-sized transmit buffer of this call */
    void    *tx_buf;  size_t tx_req;
    /* periodic hello recording (C12) */
    uint32_t hello_periodic;
    void    *hello_ni;        /* interface the last periodic Hello was sent on */
    /* large-TLV payload witness (C08) */
    uint8_t  pay_byte; uint8_t pay_byte_valid;
    /* Hello decoder results (C02/C04), filled by v_frame_ok_hello */
    uint32_t hello_seen_mask;
};

/* ---- Hello property chain (C02/C04): maintained by the ghost clauses of the writers' chain contracts -------- */
struct v_hc {
    size_t   end;      /* offset just behind the last property written */
    uint32_t seen;     /* bit t set: a property of type t has been written */
    uint8_t  first;    /* type of the first property */
    uint8_t  count;    /* properties written */
    uint8_t  ended;    /* the end-of-property marker has been written (at end - 1) */
};
extern struct v_hc g_hc;

extern struct v_cfg g_cfg;
extern struct v_led g_led;
extern size_t g_k;            /* ghost byte index  */
extern size_t g_j;            /* ghost element idx */
extern void  *g_ctx;          /* the interface context every port call must carry (C17) */

/* request under consideration (bound by the harness from the symbolic input frame) */
struct v_req {
    uint8_t  tos, opcode;
    uint16_t seq;             /* host order */
    uint16_t generation;      /* host order (Discover) */
    ethernet_address_t eth_src, eth_dst, real_src, real_dst;
    /* descriptor / mapper under consideration for Probe/Train/ACK checks */
    ethernet_address_t d_src, d_dst;
    uint8_t  d_type, d_pause, d_ack;
    ethernet_address_t mapper_real, mapper_apparent;
    uint16_t mapper_seq;
    uint8_t  kind;            /* which sender is being proved: V_K_*  */
    /* Emit under proof: when set, Probe/Train/ACK frames are checked against the descriptors of this frame */
    const uint8_t *emit_frame; uint32_t emit_n;
    /* observations the QueryResp under proof must list (snapshot taken by the harness), newest first */
    struct v_obs { uint8_t type_be[2]; ethernet_address_t real, src, dst; } obs[8];
    uint32_t obs_n;           /* observations recorded before the Query */
    uint32_t obs_cap;         /* descriptors one QueryResp can carry: (MTU - 34) / 20 */
    /* large property under proof (C08): the platform's bytes, their size, the requested offset; lt_fault = a platform
     * fault occurred while fetching it (then an empty answer is acceptable as well) */
    const uint8_t *lt_data; size_t lt_size; uint16_t lt_off; uint8_t lt_fault;
    uint32_t tx_base;         /* g_led.tx_attempts when the sender under proof was entered */
    uint32_t sleep_base;      /* g_led.sleep_calls at that point */
};
extern struct v_req g_req;

#define V_K_NONE   0
#define V_K_PROBE  1   /* sendProbeMsg: frames must match g_req.d_* / mapper_*       */
#define V_K_HELLO  2   /* answerHello: frame must match g_req addresses / generation  */
#define V_K_QRESP  3
#define V_K_QLTV   4
#define V_K_ANY    5   /* generic well-formedness only                                */

#include "v_nocheck_push.h"
/* Leaf helpers are MACROS: a specification function that is called from a contract clause must not call
 * another function (DFCC mis-links the inner call when the contract is used for replacement: "not enough
 * arguments, inserting non-deterministic value"). */
#define v_mac_eq(a_, b_) ((a_)[0] == (b_)[0] && (a_)[1] == (b_)[1] && (a_)[2] == (b_)[2] && (a_)[3] == (b_)[3] && \
                          (a_)[4] == (b_)[4] && (a_)[5] == (b_)[5])
#define v_mac_bcast(a_) ((a_)[0] == 0xFF && (a_)[1] == 0xFF && (a_)[2] == 0xFF && (a_)[3] == 0xFF && (a_)[4] == 0xFF && (a_)[5] == 0xFF)
#define v_mac_eq_at(f_, off_, m_) ((f_)[(off_)] == (m_)[0] && (f_)[(off_) + 1] == (m_)[1] && (f_)[(off_) + 2] == (m_)[2] && \
                                   (f_)[(off_) + 3] == (m_)[3] && (f_)[(off_) + 4] == (m_)[4] && (f_)[(off_) + 5] == (m_)[5])
#define v_be16(p_) ((uint16_t)(((uint16_t)(p_)[0] << 8) | (p_)[1]))
#define v_be32(p_) (((uint32_t)(p_)[0] << 24) | ((uint32_t)(p_)[1] << 16) | ((uint32_t)(p_)[2] << 8) | (uint32_t)(p_)[3])

/* domain of the configuration (the quantifier ranges of the properties) */
static inline bool v_cfg_ok(const struct v_cfg *c) {
    if (c->mtu < V_MTU_MIN || c->mtu > V_MTU_MAX) return false;
    if (c->hostname_len > V_NAME_MAX || c->ssid_len > V_NAME_MAX) return false;
    if (c->icon_size > V_ICON_CAP || c->fname_size > V_ICON_CAP) return false;
    if (c->hwid_len > 64) return false;
    if (c->clk_s0 >= ((uint64_t)1 << 40) || c->clk_frac0 >= 1000) return false;
    return true;
}
#include "v_nocheck_pop.h"
void v_env_reset(void);       /* zero the ledger, start the clock at g_cfg.clk_* */

/* current instant of the model clock (no advance) */
static inline uint64_t v_now_s(void) { return g_led.clk_s; }
static inline uint64_t v_now_ms(void) { return g_led.clk_ms; }
       /* zero the ledger, start the clock at g_cfg.clk_* */

#endif
