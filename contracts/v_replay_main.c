/* v_replay_main.c — native entry point for counterexample replay (gcc + ASan/UBSan).
 * exit 0: no obligation failed; 1: an obligation failed (or a sanitizer aborted with its own status);
 * exit 3: the input is outside the harness's stated domain (a V_ASSUME does not hold). */
#include <stdio.h>
#include <stdlib.h>

static int v_failures;

void v_fail(const char *tag, const char *expr, const char *file, int line) {
    fprintf(stderr, "REPLAY-FAIL obligation \"%s\" does not hold: %s (%s:%d)\n", tag, expr, file, line);
    v_failures++;
}

void v_assume_fail(const char *expr, const char *file, int line) {
    fprintf(stderr, "REPLAY-OUTSIDE-DOMAIN assumption %s does not hold (%s:%d)\n", expr, file, line);
    exit(3);
}

void V_HARNESS_FN(void);

int main(void) {
    V_HARNESS_FN();
    if (v_failures) {
        fprintf(stderr, "REPLAY: %d obligation(s) failed on the real code\n", v_failures);
        return 1;
    }
    fprintf(stderr, "REPLAY: no obligation failed\n");
    return 0;
}
