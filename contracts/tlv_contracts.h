/* tlv_contracts.h — contracts for the property (TLV) writers of lltdTlvOps.c and the header writers of lltdWire.c.
 * One shape for all writers: the function writes one property at buffer+offset and returns its size; the
 * postcondition is stated with the SAME specification functions the transmit oracle applies to a whole Hello
 * (v_tlv_len_legal, v_tlv_value_check in v_spec.h), so a writer that drifts from the oracle fails here first. */
#ifndef V_TLV_CONTRACTS_H
#define V_TLV_CONTRACTS_H

#include "v_harness.h"
#include "v_spec.h"
#include "lltdTlvOps.h"
#include "lltdWire.h"
#include "v_nocheck_push.h"

#define V_TLV_ROOM 72u      /* largest property a writer may produce: 2 + 64 (support URL / hardware id), rounded up */
#define PRE_writer(buf, off) (V_RW_OK((uint8_t *)(buf) + (off), V_TLV_ROOM))
/* a written property: type byte, length byte, exactly 2 + length bytes returned */
#define TLV_WRITTEN(buf, off, ret, type) \
    ((ret) >= 2 && ((const uint8_t *)(buf))[off] == (type) && (ret) == 2u + ((const uint8_t *)(buf))[(off) + 1] && \
     v_tlv_len_legal((type), ((const uint8_t *)(buf))[(off) + 1]))

/* when a writer may legitimately produce nothing */
#define ABS_NEVER   false
#define ABS_NOWIFI  (!g_cfg.wifi)
#define ABS_NOBSSID (!g_cfg.wifi || g_cfg.bssid_fail)
#define ABS_NOHWID  (g_cfg.hwid_len == 0)

/* Contract of a writer (ENFORCED on the real body, harness tlv_writers) ... */
#define WRITER_BASE(args, type, absent_ok) \
__CPROVER_requires(PRE_writer(buffer, offset)) \
__CPROVER_assigns(__CPROVER_object_upto((uint8_t *)buffer + offset, V_TLV_ROOM), g_led) \
__CPROVER_ensures(__CPROVER_return_value != 0 || (absent_ok)) \
__CPROVER_ensures(__CPROVER_return_value == 0 || TLV_WRITTEN(buffer, offset, __CPROVER_return_value, type))
/* ... and its chain form (used to REPLACE the writer inside answerHello): the same clauses plus the ghost bookkeeping
 * of the property chain.  The two requires are obligations at every call site in answerHello: properties are laid
 * out back to back, and no type is written twice. */
#define WRITER_CHAIN(type, absent_ok) \
__CPROVER_requires(PRE_writer(buffer, offset)) \
__CPROVER_requires(offset == g_hc.end && !g_hc.ended) /*@C02.hello.contiguous*/ \
__CPROVER_requires((g_hc.seen & V_BIT(type)) == 0) /*@C02.hello.no-type-twice*/ \
__CPROVER_assigns(__CPROVER_object_upto((uint8_t *)buffer + offset, V_TLV_ROOM), g_hc) \
__CPROVER_ensures(__CPROVER_return_value != 0 || (absent_ok)) \
__CPROVER_ensures(__CPROVER_return_value == 0 || TLV_WRITTEN(buffer, offset, __CPROVER_return_value, type)) \
__CPROVER_ensures(__CPROVER_return_value <= V_TLV_ROOM) \
__CPROVER_ensures(__CPROVER_return_value == 0 \
    ? (g_hc.end == __CPROVER_old(g_hc.end) && g_hc.seen == __CPROVER_old(g_hc.seen) && g_hc.first == __CPROVER_old(g_hc.first) && \
       g_hc.count == __CPROVER_old(g_hc.count) && g_hc.ended == __CPROVER_old(g_hc.ended)) \
    : (g_hc.end == __CPROVER_old(g_hc.end) + __CPROVER_return_value && g_hc.seen == (__CPROVER_old(g_hc.seen) | V_BIT(type)) && \
       g_hc.first == (__CPROVER_old(g_hc.count) == 0 ? (type) : __CPROVER_old(g_hc.first)) && \
       g_hc.count == __CPROVER_old(g_hc.count) + 1 && g_hc.ended == 0))

#define WRITER3(name, type, absent_ok) \
size_t name(void *buffer, size_t offset, void *iface_ctx) \
__CPROVER_requires(iface_ctx == g_ctx) /*@C17.ctx-passed*/ \
WRITER_BASE((buffer, offset, iface_ctx), type, absent_ok); \
size_t name##__chain(void *buffer, size_t offset, void *iface_ctx) \
__CPROVER_requires(iface_ctx == g_ctx) /*@C17.ctx-passed*/ \
WRITER_CHAIN(type, absent_ok);
#define WRITER2(name, type, absent_ok) \
size_t name(void *buffer, size_t offset) \
WRITER_BASE((buffer, offset), type, absent_ok); \
size_t name##__chain(void *buffer, size_t offset) \
WRITER_CHAIN(type, absent_ok);

WRITER3(setHostIdTLV, 0x01, ABS_NEVER)
WRITER3(setCharacteristicsTLV, 0x02, ABS_NEVER)
WRITER3(setPhysicalMediumTLV, 0x03, ABS_NEVER)
WRITER3(setWirelessTLV, 0x04, ABS_NOWIFI)
WRITER3(setBSSIDTLV, 0x05, ABS_NOBSSID)
WRITER3(setSSIDTLV, 0x06, ABS_NEVER)
WRITER3(setIPv4TLV, 0x07, ABS_NEVER)
WRITER3(setIPv6TLV, 0x08, ABS_NEVER)
WRITER3(setWifiMaxRateTLV, 0x09, ABS_NEVER)
WRITER2(setPerfCounterTLV, 0x0A, ABS_NEVER)
WRITER3(setLinkSpeedTLV, 0x0C, ABS_NEVER)
WRITER3(setWifiRssiTLV, 0x0D, ABS_NEVER)
WRITER2(setIconImageTLV, 0x0E, ABS_NEVER)
WRITER2(setHostnameTLV, 0x0F, ABS_NEVER)
WRITER2(setSupportInfoTLV, 0x10, ABS_NEVER)
WRITER2(setFriendlyNameTLV, 0x11, ABS_NEVER)
WRITER2(setHardwareIdTLV, 0x13, ABS_NOHWID)
WRITER2(setQosCharacteristicsTLV, 0x14, ABS_NEVER)

/* the three table writers produce nothing */
#define WRITER_NONE(name) \
size_t name(void *buffer, size_t offset, void *networkInterface) \
__CPROVER_assigns() \
__CPROVER_ensures(__CPROVER_return_value == 0);
WRITER_NONE(setAPAssociationTableTLV)
WRITER_NONE(setRepeaterAPLineageTLV)
WRITER_NONE(setRepeaterAPTableTLV)

/* end marker: one zero byte right behind the last property */
size_t setEndOfPropertyTLV(void *buffer, size_t offset)
__CPROVER_requires(V_RW_OK((uint8_t *)buffer + offset, 1))
__CPROVER_assigns(((uint8_t *)buffer)[offset])
__CPROVER_ensures(__CPROVER_return_value == 1 && ((const uint8_t *)buffer)[offset] == 0)
;
size_t setEndOfPropertyTLV__chain(void *buffer, size_t offset)
__CPROVER_requires(V_RW_OK((uint8_t *)buffer + offset, 1))
__CPROVER_requires(offset == g_hc.end && !g_hc.ended) /*@C02.hello.end-marker-last*/
__CPROVER_assigns(((uint8_t *)buffer)[offset], g_hc)
__CPROVER_ensures(__CPROVER_return_value == 1 && ((const uint8_t *)buffer)[offset] == 0)
__CPROVER_ensures(g_hc.end == __CPROVER_old(g_hc.end) + 1 && g_hc.ended == 1 && g_hc.seen == __CPROVER_old(g_hc.seen) &&
                  g_hc.first == __CPROVER_old(g_hc.first) && g_hc.count == __CPROVER_old(g_hc.count))
;

#include "v_nocheck_pop.h"
#endif
