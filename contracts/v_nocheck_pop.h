#ifndef V_REPLAY
#pragma CPROVER check pop
#endif
