/* lltdBlock_contracts.h — contracts for the static functions of lltdBlock.c.
 *
 * Included by lltdBlock.c itself (the only hook in the repository) right after the definition of
 * g_iface_states, under D3VI1_LLTDRESPONDER_VERIF, because the per-interface state record is private to that
 * file.  Contracts sit on forward declarations; the function bodies are the repository's, unmodified.
 * Clause macros take "old" values as explicit parameters (see automata_contracts.h for the convention).
 */
#ifndef V_LLTDBLOCK_CONTRACTS_H
#define V_LLTDBLOCK_CONTRACTS_H

#include "v_harness.h"
#include "v_spec.h"

/* ---- the observation list (bounded shape: at most V_LIST_MAX nodes, each its own allocation) ------ */
#ifndef V_LIST_MAX
#define V_LIST_MAX 3
#endif
static inline probe_t *v_nx(probe_t *p) { return p ? (probe_t *)p->nextProbe : (probe_t *)0; }
#define v_n0(p) (p)
#define v_n1(p) v_nx(v_n0(p))
#define v_n2(p) v_nx(v_n1(p))
#define v_n3(p) v_nx(v_n2(p))
#define v_n4(p) v_nx(v_n3(p))
#define v_n5(p) v_nx(v_n4(p))
#define v_n6(p) v_nx(v_n5(p))
#define v_n7(p) v_nx(v_n6(p))
/* length, saturating at 8 */
static inline unsigned v_list_len(probe_t *p) {
    return !v_n0(p) ? 0u : !v_n1(p) ? 1u : !v_n2(p) ? 2u : !v_n3(p) ? 3u : !v_n4(p) ? 4u : !v_n5(p) ? 5u :
           !v_n6(p) ? 6u : !v_n7(p) ? 7u : 8u;
}
static inline probe_t *v_nth(probe_t *p, unsigned k) {
    return k == 0 ? v_n0(p) : k == 1 ? v_n1(p) : k == 2 ? v_n2(p) : k == 3 ? v_n3(p) : k == 4 ? v_n4(p) :
           k == 5 ? v_n5(p) : k == 6 ? v_n6(p) : v_n7(p);
}
/* observation key: (Ethernet source, real source) */
static inline bool v_obs_same_key(const probe_t *a, const probe_t *b) {
    return v_mac_eq(a->sourceAddr.a, b->sourceAddr.a) && v_mac_eq(a->realSourceAddr.a, b->realSourceAddr.a);
}

/* ---- representation invariant of the per-interface record ------------------------------------- */
#define ST_SHAPE(st) \
    (V_RW_OK((st), sizeof(lltd_iface_state)) && (st)->see_list_count == v_list_len((st)->see_list) && \
     (st)->see_list_count <= V_LIST_MAX && (st)->mapper_known <= 1 && \
     (((st)->small_icon == NULL) == ((st)->small_icon_size == 0)))
/* ledger equation (C19): what is live is exactly the record, its observations and the cached icon */
#define ST_LIVE(st) (1u + (st)->see_list_count + ((st)->small_icon != NULL ? 1u : 0u))

/* fault outcomes as functions of the configuration and the ledger before the call */
#define V_ALLOC_OK(allocs0, k)  (!((g_cfg.alloc_fail_mask >> (((allocs0) + (k)) & 31u)) & 1u))
#define V_SEND_OK(tx0, k)       (!((g_cfg.send_fail_mask >> (((tx0) + (k)) & 31u)) & 1u))

/* =============================== C06 / C10: sendProbeMsg ========================================= */
#define PRE_sendProbeMsg(st) (V_RW_OK((st), sizeof(lltd_iface_state)) && (st)->mapper_known == 1)
/* number of transmit attempts: none if the buffer could not be allocated; else the Probe/Train, and the ACK
 * only when requested and the Probe/Train was accepted */
#define PROBE_TX(ack, allocs0, tx0) \
    (!V_ALLOC_OK(allocs0, 0) ? 0u : (((ack) && V_SEND_OK(tx0, 0)) ? 2u : 1u))
#define C06_PROBE_LEDGER(ack, type, allocs0, tx0, live0, sleep0, tp0, ta0) \
    (g_led.tx_attempts == (tx0) + PROBE_TX(ack, allocs0, tx0) && g_led.live == (live0) && \
     g_led.allocs == (allocs0) + 1u && \
     g_led.sleep_calls == (sleep0) + (V_ALLOC_OK(allocs0, 0) ? 1u : 0u) && \
     g_led.tx_op[3] + g_led.tx_op[4] == (tp0) + (V_ALLOC_OK(allocs0, 0) ? 1u : 0u) && \
     g_led.tx_op[5] == (ta0) + (PROBE_TX(ack, allocs0, tx0) == 2u ? 1u : 0u))
#define C06_PROBE_RET(ret, allocs0, tx0) ((ret) == (V_ALLOC_OK(allocs0, 0) && V_SEND_OK(tx0, 0)))

static bool sendProbeMsg(ethernet_address_t src, ethernet_address_t dst, lltd_iface_state *st, void *iface_ctx,
                         int pause_ms, uint8_t type, bool ack)
__CPROVER_requires(PRE_sendProbeMsg(st))
__CPROVER_requires(iface_ctx == g_ctx) /*@C17.ctx-passed*/
__CPROVER_assigns(g_led)
__CPROVER_ensures(C06_PROBE_LEDGER(ack, type, __CPROVER_old(g_led.allocs), __CPROVER_old(g_led.tx_attempts), __CPROVER_old(g_led.live), __CPROVER_old(g_led.sleep_calls), __CPROVER_old(g_led.tx_op[3]) + __CPROVER_old(g_led.tx_op[4]), __CPROVER_old(g_led.tx_op[5]))) /*@C06.probe-ledger C18.probe-ledger C19.probe-ledger*/
__CPROVER_ensures(C06_PROBE_RET(__CPROVER_return_value, __CPROVER_old(g_led.allocs), __CPROVER_old(g_led.tx_attempts))) /*@C06.probe-ret*/
;

/* =============================== C06 / C01: parseEmit ============================================ */
/* most descriptors an Emit of MTU bytes can carry: 32-byte base header + 2-byte count + 14 bytes each */
#define V_EMIT_CAP(mtu) (((mtu) - 34u) / 14u)
#define PRE_frame(f)    (V_RW_OK((f), v_eff_mtu()))
#define C06_EMIT_STATE(st, f, known0, real0, app0) \
    ((st)->mapper_seq == v_be16((const uint8_t *)(f) + 30) && (st)->mapper_known == 1 && \
     ((known0) ? (v_mac_eq((st)->mapper_real.a, (real0).a) && v_mac_eq((st)->mapper_apparent.a, (app0).a)) \
               : (v_mac_eq((st)->mapper_real.a, (const uint8_t *)(f) + 24) && v_mac_eq((st)->mapper_apparent.a, (const uint8_t *)(f) + 6))))
#define C06_EMIT_BOUND(tx0, live0) \
    (g_led.tx_attempts - (tx0) <= V_EMIT_CAP(v_eff_mtu()) + 1u && g_led.live == (live0))

static void parseEmit(void *inFrame, lltd_iface_state *st, void *iface_ctx)
__CPROVER_requires(PRE_frame(inFrame) && ST_SHAPE(st))
__CPROVER_requires(iface_ctx == g_ctx)
__CPROVER_assigns(g_led, st->mapper_seq, st->mapper_real, st->mapper_apparent, st->mapper_known)
__CPROVER_ensures(C06_EMIT_STATE(st, inFrame, __CPROVER_old(st->mapper_known), __CPROVER_old(st->mapper_real), __CPROVER_old(st->mapper_apparent))) /*@C06.emit-state C05.emit-state*/
__CPROVER_ensures(C06_EMIT_BOUND(__CPROVER_old(g_led.tx_attempts), __CPROVER_old(g_led.live))) /*@C06.count-bound C19.emit-ledger C02.emit-bound*/
;

#endif
