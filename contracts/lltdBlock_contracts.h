/* lltdBlock_contracts.h — contracts for the static functions of lltdBlock.c.
 *
 * Included by lltdBlock.c itself (the only hook in the repository) right after the definition of
 * g_iface_states, under D3VI1_LLTDRESPONDER_VERIF, because the per-interface state record is private to that
 * file.  Contracts sit on forward declarations; the function bodies are the repository's, unmodified.
 * Clause macros take "old" values as explicit parameters (see automata_contracts.h for the convention).
 */
#ifndef V_LLTDBLOCK_CONTRACTS_H
#define V_LLTDBLOCK_CONTRACTS_H

#include "v_harness.h"
#include "v_spec.h"

#include "v_nocheck_push.h"

/* ---- the observation list (bounded shape: at most V_LIST_MAX nodes, each its own allocation) ------ */
#ifndef V_LIST_MAX
#define V_LIST_MAX 3
#endif
#define v_nx(p_) ((p_) ? (probe_t *)(p_)->nextProbe : (probe_t *)0)
#define v_n0(p) (p)
#define v_n1(p) v_nx(v_n0(p))
#define v_n2(p) v_nx(v_n1(p))
#define v_n3(p) v_nx(v_n2(p))
#define v_n4(p) v_nx(v_n3(p))
#define v_n5(p) v_nx(v_n4(p))
#define v_n6(p) v_nx(v_n5(p))
#define v_n7(p) v_nx(v_n6(p))
/* length, saturating at 8 */
static inline unsigned v_list_len(probe_t *p) {
    return !v_n0(p) ? 0u : !v_n1(p) ? 1u : !v_n2(p) ? 2u : !v_n3(p) ? 3u : !v_n4(p) ? 4u : !v_n5(p) ? 5u :
           !v_n6(p) ? 6u : !v_n7(p) ? 7u : 8u;
}
static inline probe_t *v_nth(probe_t *p, unsigned k) {
    return k == 0 ? v_n0(p) : k == 1 ? v_n1(p) : k == 2 ? v_n2(p) : k == 3 ? v_n3(p) : k == 4 ? v_n4(p) :
           k == 5 ? v_n5(p) : k == 6 ? v_n6(p) : v_n7(p);
}
/* observation key: (Ethernet source, real source) */
#define v_obs_same_key(x_, y_) (v_mac_eq((x_)->sourceAddr.a, (y_)->sourceAddr.a) && v_mac_eq((x_)->realSourceAddr.a, (y_)->realSourceAddr.a))

/* ---- representation invariant of the per-interface record ------------------------------------- */
/* every node of the list is a live object of its own (stated explicitly: implicit pointer checks are generated for
 * the code under proof, not for the specification) */
#define NODE_OK(p) (!(p) || V_RW_OK((p), sizeof(probe_t)))
static inline bool v_nodes_ok(probe_t *h) {
    probe_t *a0 = h;
    if (!NODE_OK(a0)) return false;
    probe_t *a1 = v_nx(a0);
    if (!NODE_OK(a1)) return false;
    probe_t *a2 = v_nx(a1);
    if (!NODE_OK(a2)) return false;
    probe_t *a3 = v_nx(a2);
    if (!NODE_OK(a3)) return false;
    probe_t *a4 = v_nx(a3);
    if (!NODE_OK(a4)) return false;
    probe_t *a5 = v_nx(a4);
    if (!NODE_OK(a5)) return false;
    probe_t *a6 = v_nx(a5);
    return NODE_OK(a6);
}
#define ST_SHAPE(st) \
    (V_RW_OK((st), sizeof(lltd_iface_state)) && v_nodes_ok((st)->see_list) && (st)->see_list_count == v_list_len((st)->see_list) && \
     (st)->see_list_count <= V_LIST_MAX && (st)->mapper_known <= 1 && \
     (((st)->small_icon == NULL) == ((st)->small_icon_size == 0)) && \
     ((st)->small_icon == NULL || V_R_OK((st)->small_icon, (st)->small_icon_size)))
/* ledger equation (C19): what is live is exactly the record, its observations and the cached icon */
#define ST_LIVE(st) (1u + (st)->see_list_count + ((st)->small_icon != NULL ? 1u : 0u))

/* fault outcomes as functions of the configuration and the ledger before the call */
#define V_ALLOC_OK(allocs0, k)  (!((g_cfg.alloc_fail_mask >> (((allocs0) + (k)) & 31u)) & 1u))
#define V_SEND_OK(tx0, k)       (!((g_cfg.send_fail_mask >> (((tx0) + (k)) & 31u)) & 1u))

/* =============================== C06 / C10: sendProbeMsg ========================================= */
#define PRE_sendProbeMsg(st) (V_RW_OK((st), sizeof(lltd_iface_state)) && (st)->mapper_known == 1)
/* number of transmit attempts: none if the buffer could not be allocated; else the Probe/Train, and the ACK
 * only when requested and the Probe/Train was accepted */
#define PROBE_TX(ack, allocs0, tx0) \
    (!V_ALLOC_OK(allocs0, 0) ? 0u : (((ack) && V_SEND_OK(tx0, 0)) ? 2u : 1u))
#define C06_PROBE_LEDGER(ack, type, allocs0, tx0, live0, sleep0, tp0, ta0) \
    (g_led.tx_attempts == (tx0) + PROBE_TX(ack, allocs0, tx0) && g_led.live == (live0) && \
     g_led.allocs == (allocs0) + 1u && \
     g_led.sleep_calls == (sleep0) + (V_ALLOC_OK(allocs0, 0) ? 1u : 0u) && \
     g_led.tx_op[3] + g_led.tx_op[4] == (tp0) + (V_ALLOC_OK(allocs0, 0) ? 1u : 0u) && \
     g_led.tx_op[5] == (ta0) + (PROBE_TX(ack, allocs0, tx0) == 2u ? 1u : 0u))
#define C06_PROBE_RET(ret, allocs0, tx0) ((ret) == (V_ALLOC_OK(allocs0, 0) && V_SEND_OK(tx0, 0)))

static bool sendProbeMsg(ethernet_address_t src, ethernet_address_t dst, lltd_iface_state *st, void *iface_ctx,
                         int pause_ms, uint8_t type, bool ack)
__CPROVER_requires(PRE_sendProbeMsg(st))
__CPROVER_requires(iface_ctx == g_ctx) /*@C17.ctx-passed*/
__CPROVER_assigns(g_led)
__CPROVER_ensures(C06_PROBE_LEDGER(ack, type, __CPROVER_old(g_led.allocs), __CPROVER_old(g_led.tx_attempts), __CPROVER_old(g_led.live), __CPROVER_old(g_led.sleep_calls), __CPROVER_old(g_led.tx_op[3]) + __CPROVER_old(g_led.tx_op[4]), __CPROVER_old(g_led.tx_op[5]))) /*@C06.probe-ledger C18.probe-ledger C19.probe-ledger*/
__CPROVER_ensures(C06_PROBE_RET(__CPROVER_return_value, __CPROVER_old(g_led.allocs), __CPROVER_old(g_led.tx_attempts))) /*@C06.probe-ret*/
;

/* =============================== C06 / C01: parseEmit ============================================ */
/* most descriptors an Emit of MTU bytes can carry: 32-byte base header + 2-byte count + 14 bytes each */
#define V_EMIT_CAP(mtu) (((mtu) - 34u) / 14u)
#define PRE_frame(f)    (V_RW_OK((f), v_eff_mtu()))
#define C06_EMIT_STATE(st, f, known0, real0, app0) \
    ((st)->mapper_seq == v_be16((const uint8_t *)(f) + 30) && (st)->mapper_known == 1 && \
     ((known0) ? (v_mac_eq((st)->mapper_real.a, (real0).a) && v_mac_eq((st)->mapper_apparent.a, (app0).a)) \
               : (v_mac_eq((st)->mapper_real.a, (const uint8_t *)(f) + 24) && v_mac_eq((st)->mapper_apparent.a, (const uint8_t *)(f) + 6))))
#define C06_EMIT_BOUND(tx0, live0) \
    (g_led.tx_attempts - (tx0) <= V_EMIT_CAP(v_eff_mtu()) + 1u && g_led.live == (live0))

static void parseEmit(void *inFrame, lltd_iface_state *st, void *iface_ctx)
__CPROVER_requires(PRE_frame(inFrame) && ST_SHAPE(st))
__CPROVER_requires(iface_ctx == g_ctx)
__CPROVER_assigns(g_led, st->mapper_seq, st->mapper_real, st->mapper_apparent, st->mapper_known)
__CPROVER_ensures(C06_EMIT_STATE(st, inFrame, __CPROVER_old(st->mapper_known), __CPROVER_old(st->mapper_real), __CPROVER_old(st->mapper_apparent))) /*@C06.emit-state C05.emit-state*/
__CPROVER_ensures(C06_EMIT_BOUND(__CPROVER_old(g_led.tx_attempts), __CPROVER_old(g_led.live))) /*@C06.count-bound C19.emit-ledger C02.emit-bound*/
;

/* =============================== C07 / C19: parseProbe, parseQuery =============================== */
#ifndef LLTD_SEE_LIST_MAX
#define V_SEE_MAX 0xFFFFFFFFu          /* the pinned tree has no cap */
#else
#define V_SEE_MAX LLTD_SEE_LIST_MAX
#endif
#define v_pair_ok(x_, y_) (!(x_) || !(y_) || !v_obs_same_key((x_), (y_)))
/* no observation twice: keys pairwise distinct (lists of at most 6 nodes) */
static inline bool v_list_unique(probe_t *h) {
    probe_t *a0 = h, *a1 = v_nx(a0), *a2 = v_nx(a1), *a3 = v_nx(a2), *a4 = v_nx(a3), *a5 = v_nx(a4);
    return v_pair_ok(a0, a1) && v_pair_ok(a0, a2) && v_pair_ok(a0, a3) && v_pair_ok(a0, a4) && v_pair_ok(a0, a5) &&
           v_pair_ok(a1, a2) && v_pair_ok(a1, a3) && v_pair_ok(a1, a4) && v_pair_ok(a1, a5) &&
           v_pair_ok(a2, a3) && v_pair_ok(a2, a4) && v_pair_ok(a2, a5) &&
           v_pair_ok(a3, a4) && v_pair_ok(a3, a5) && v_pair_ok(a4, a5);
}
#define v_key_is(x_, es_, rs_) ((x_) && v_mac_eq((x_)->sourceAddr.a, (es_)) && v_mac_eq((x_)->realSourceAddr.a, (rs_)))
static inline bool v_list_has_key(probe_t *h, const uint8_t *eth_src, const uint8_t *real_src) {
    probe_t *a0 = h, *a1 = v_nx(a0), *a2 = v_nx(a1), *a3 = v_nx(a2), *a4 = v_nx(a3), *a5 = v_nx(a4);
    return v_key_is(a0, eth_src, real_src) || v_key_is(a1, eth_src, real_src) || v_key_is(a2, eth_src, real_src) ||
           v_key_is(a3, eth_src, real_src) || v_key_is(a4, eth_src, real_src) || v_key_is(a5, eth_src, real_src);
}
#define ST_WF(st) (ST_SHAPE(st) && v_list_unique((st)->see_list))

/* a recorded observation carries the frame's addresses and kind (type in network order: 1 = Probe, 0 = Train) */
static inline bool v_obs_from_frame(const probe_t *p, const uint8_t *f) {
    const uint8_t *t = (const uint8_t *)&p->type;
    return t[0] == 0 && t[1] == (f[17] == 0x04 ? 1 : 0) && v_mac_eq(p->sourceAddr.a, f + 6) &&
           v_mac_eq(p->destAddr.a, f) && v_mac_eq(p->realSourceAddr.a, f + 24);
}
/* recorded iff addressed to this station, not seen before, memory available and the list not full */
#define PROBE_RECORDS(f, head0, count0, allocs0) \
    (v_own_mac((const uint8_t *)(f) + 18) && !v_list_has_key((head0), (const uint8_t *)(f) + 6, (const uint8_t *)(f) + 24) && \
     (count0) < V_SEE_MAX && V_ALLOC_OK(allocs0, 0))
#define C07_PROBE(st, f, head0, count0, live0, allocs0, tx0) \
    (g_led.tx_attempts == (tx0) && \
     (PROBE_RECORDS(f, head0, count0, allocs0) \
        ? ((st)->see_list_count == (count0) + 1u && (st)->see_list != NULL && v_nx((st)->see_list) == (head0) && \
           v_obs_from_frame((st)->see_list, (const uint8_t *)(f)) && g_led.live == (live0) + 1u) \
        : ((st)->see_list_count == (count0) && (st)->see_list == (head0) && g_led.live == (live0))))
#define C07_PROBE_FOREIGN(st, f, head0, allocs0) \
    (v_own_mac((const uint8_t *)(f) + 18) || ((st)->see_list == (head0) && g_led.allocs == (allocs0)))

static void parseProbe(void *inFrame, lltd_iface_state *st, void *iface_ctx)
__CPROVER_requires(PRE_frame(inFrame) && ST_WF(st))
__CPROVER_requires(iface_ctx == g_ctx) /*@C17.ctx-passed*/
__CPROVER_assigns(g_led, st->see_list, st->see_list_count)
/* first: a recorded observation lives in a new object (when the contract replaces the call this clause creates it, so it
 * must precede the clauses that read the node) */
__CPROVER_ensures(!PROBE_RECORDS(inFrame, __CPROVER_old(st->see_list), __CPROVER_old(st->see_list_count), __CPROVER_old(g_led.allocs)) || V_IS_FRESH(st->see_list, sizeof(probe_t))) /*@C07.probe-new-node C19.probe-new-node*/
__CPROVER_ensures(C07_PROBE(st, inFrame, __CPROVER_old(st->see_list), __CPROVER_old(st->see_list_count), __CPROVER_old(g_led.live), __CPROVER_old(g_led.allocs), __CPROVER_old(g_led.tx_attempts))) /*@C07.probe-recorded-once C10.observer-records C19.probe-ledger C02.probe-silent*/
__CPROVER_ensures(C07_PROBE_FOREIGN(st, inFrame, __CPROVER_old(st->see_list), __CPROVER_old(g_led.allocs))) /*@C07.probe-foreign-ignored*/
__CPROVER_ensures(ST_WF(st)) /*@C07.probe-wf C19.probe-wf*/
;

/* call-free pointer chains for assigns / frees clauses (at most 6 nodes) */
#define PN(p) ((probe_t *)(p)->nextProbe)
#define P1(h) PN(h)
#define P2(h) PN(P1(h))
#define P3(h) PN(P2(h))
#define P4(h) PN(P3(h))
#define P5(h) PN(P4(h))
#define HAS1(h) ((h) != NULL)
#define HAS2(h) (HAS1(h) && P1(h) != NULL)
#define HAS3(h) (HAS2(h) && P2(h) != NULL)
#define HAS4(h) (HAS3(h) && P3(h) != NULL)
#define HAS5(h) (HAS4(h) && P4(h) != NULL)
#define HAS6(h) (HAS5(h) && P5(h) != NULL)
#define LIST_TARGETS(h) \
    HAS1(h): __CPROVER_object_whole(h); HAS2(h): __CPROVER_object_whole(P1(h)); HAS3(h): __CPROVER_object_whole(P2(h)); \
    HAS4(h): __CPROVER_object_whole(P3(h)); HAS5(h): __CPROVER_object_whole(P4(h)); HAS6(h): __CPROVER_object_whole(P5(h))
#define LIST_TARGETS_C(c, h) \
    (c) && HAS1(h): __CPROVER_object_whole(h); (c) && HAS2(h): __CPROVER_object_whole(P1(h)); (c) && HAS3(h): __CPROVER_object_whole(P2(h)); \
    (c) && HAS4(h): __CPROVER_object_whole(P3(h)); (c) && HAS5(h): __CPROVER_object_whole(P4(h)); (c) && HAS6(h): __CPROVER_object_whole(P5(h))
#define LIST_FREES_C(c, h) \
    (c) && HAS1(h): (h); (c) && HAS2(h): P1(h); (c) && HAS3(h): P2(h); (c) && HAS4(h): P3(h); (c) && HAS5(h): P4(h); (c) && HAS6(h): P5(h)
#define LIST_FREES(h) \
    HAS1(h): (h); HAS2(h): P1(h); HAS3(h): P2(h); HAS4(h): P3(h); HAS5(h): P4(h); HAS6(h): P5(h)

/* descriptors one QueryResp can carry */
#define V_QRESP_CAP ((v_eff_mtu() - 34u) / 20u)
#define C07_QUERY_MAPPER(st, f) \
    ((st)->mapper_seq == v_be16((const uint8_t *)(f) + 30) && (st)->mapper_known == 1 && \
     v_mac_eq((st)->mapper_real.a, (const uint8_t *)(f) + 24) && v_mac_eq((st)->mapper_apparent.a, (const uint8_t *)(f) + 6))
/* one response (if the buffer could be allocated); what was sent is released, what did not fit is kept */
#define C07_QUERY_LIST(st, head0, count0, live0, allocs0, tx0) \
    (!V_ALLOC_OK(allocs0, 0) \
        ? (g_led.tx_attempts == (tx0) && (st)->see_list == (head0) && (st)->see_list_count == (count0) && g_led.live == (live0)) \
        : (g_led.tx_attempts == (tx0) + 1u && \
           ((count0) > V_QRESP_CAP \
              ? ((st)->see_list_count == (count0) - V_QRESP_CAP && (st)->see_list != NULL && \
                 g_led.live == (live0) - V_QRESP_CAP) \
              : ((st)->see_list_count == 0 && (st)->see_list == NULL && g_led.live == (live0) - (count0)))))

static void parseQuery(void *inFrame, lltd_iface_state *st, void *iface_ctx)
__CPROVER_requires(PRE_frame(inFrame) && ST_WF(st))
__CPROVER_requires(iface_ctx == g_ctx) /*@C17.ctx-passed*/
__CPROVER_assigns(g_led, st->see_list, st->see_list_count, st->mapper_seq, st->mapper_real, st->mapper_apparent, st->mapper_known)
__CPROVER_frees(LIST_FREES(st->see_list))      /* observation nodes are released, never modified */
__CPROVER_ensures(C07_QUERY_MAPPER(st, inFrame)) /*@C07.query-mapper C05.query-mapper*/
__CPROVER_ensures(C07_QUERY_LIST(st, __CPROVER_old(st->see_list), __CPROVER_old(st->see_list_count), __CPROVER_old(g_led.live), __CPROVER_old(g_led.allocs), __CPROVER_old(g_led.tx_attempts))) /*@C07.query-delivers-all C19.query-ledger C02.query-single*/
__CPROVER_ensures(ST_SHAPE(st)) /*@C07.query-wf C19.query-wf*/
;

/* =============================== C08: large properties ============================================ */
#define C08_LTR_LEDGER(live0, allocs0, tx0) \
    (g_led.live == (live0) && g_led.allocs == (allocs0) + 1u && g_led.tx_attempts == (tx0) + (V_ALLOC_OK(allocs0, 0) ? 1u : 0u))

/* what a caller has to hand over: the requested offset and the whole property the platform provides for the request (or nothing
 * when the platform failed) - stated over the ghost request g_req, so it is an obligation at the call sites of parseQueryLargeTlv
 * wherever sendLargeTlvResponse is replaced by its contract (big-icon instance) */
#define C08_LTR_ARGS(d, n, off) \
    (g_req.kind != V_K_QLTV || ((off) == g_req.lt_off && ((n) == g_req.lt_size || (g_req.lt_fault && (n) == 0))))
static void sendLargeTlvResponse(lltd_iface_state *st, void *iface_ctx, void *inFrame, const void *data, size_t dataSize, uint16_t dataOffset)
__CPROVER_requires(C08_LTR_ARGS(data, dataSize, dataOffset)) /*@C08.ltr-args*/
__CPROVER_requires(PRE_frame(inFrame) && V_RW_OK(st, sizeof(lltd_iface_state)))
__CPROVER_requires(data == NULL || V_R_OK(data, dataSize))
__CPROVER_requires(iface_ctx == g_ctx) /*@C17.ctx-passed*/
__CPROVER_assigns(g_led)
__CPROVER_ensures(C08_LTR_LEDGER(__CPROVER_old(g_led.live), __CPROVER_old(g_led.allocs), __CPROVER_old(g_led.tx_attempts))) /*@C08.one-response C19.ltr-ledger C02.ltr-single*/
;

/* a request with sequence number zero is not answered and changes nothing */
#define C08_SEQ0(st, f, seq0, known0, allocs0, tx0, live0) \
    (v_be16((const uint8_t *)(f) + 30) != 0 || \
     ((st)->mapper_seq == (seq0) && (st)->mapper_known == (known0) && g_led.allocs == (allocs0) && g_led.tx_attempts == (tx0) && g_led.live == (live0)))
#define C08_QLT_STATE(st, f, known0, real0, app0) \
    (v_be16((const uint8_t *)(f) + 30) == 0 || \
     ((st)->mapper_seq == v_be16((const uint8_t *)(f) + 30) && (st)->mapper_known == 1 && \
      ((known0) ? (v_mac_eq((st)->mapper_real.a, (real0).a) && v_mac_eq((st)->mapper_apparent.a, (app0).a)) \
                : (v_mac_eq((st)->mapper_real.a, (const uint8_t *)(f) + 24) && v_mac_eq((st)->mapper_apparent.a, (const uint8_t *)(f) + 6)))))
/* at most one response; nothing is retained except a newly cached icon */
#define C08_QLT_LEDGER(st, tx0, live0, icon0) \
    (g_led.tx_attempts <= (tx0) + 1u && g_led.live == (live0) + (((icon0) == NULL && (st)->small_icon != NULL) ? 1u : 0u) && \
     ((icon0) == NULL || (st)->small_icon == (icon0)))

static void parseQueryLargeTlv(void *inFrame, lltd_iface_state *st, void *iface_ctx)
__CPROVER_requires(PRE_frame(inFrame) && ST_SHAPE(st))
__CPROVER_requires(iface_ctx == g_ctx) /*@C17.ctx-passed*/
__CPROVER_assigns(g_led, st->mapper_seq, st->mapper_real, st->mapper_apparent, st->mapper_known, st->small_icon, st->small_icon_size)
__CPROVER_ensures(__CPROVER_old(st->small_icon) != NULL || st->small_icon == NULL || V_IS_FRESH(st->small_icon, st->small_icon_size)) /*@C08.qlt-new-icon C19.qlt-new-icon*/
__CPROVER_ensures(C08_SEQ0(st, inFrame, __CPROVER_old(st->mapper_seq), __CPROVER_old(st->mapper_known), __CPROVER_old(g_led.allocs), __CPROVER_old(g_led.tx_attempts), __CPROVER_old(g_led.live))) /*@C08.seq-zero-ignored*/
__CPROVER_ensures(C08_QLT_STATE(st, inFrame, __CPROVER_old(st->mapper_known), __CPROVER_old(st->mapper_real), __CPROVER_old(st->mapper_apparent))) /*@C08.qlt-state C05.qlt-state*/
__CPROVER_ensures(C08_QLT_LEDGER(st, __CPROVER_old(g_led.tx_attempts), __CPROVER_old(g_led.live), __CPROVER_old(st->small_icon))) /*@C08.qlt-ledger C19.qlt-ledger C02.qlt-single*/
__CPROVER_ensures(ST_SHAPE(st)) /*@C08.qlt-wf C19.qlt-wf*/
;


/* =============================== C03 / C05: answerHello (contract used by parseFrame) ============= */
#define GEN_SLOT(st, tos)   ((tos) == 1 ? (st)->mapper_gen_quick : (st)->mapper_gen_topology)
/* established by parseFrame's Discover pre-step: the sender is (or becomes) the active mapper and the generation
 * stored for the frame's service is that very frame's */
#define PRE_answerHello(st, f) \
    ((st)->mapper_known == 1 && v_mac_eq((st)->mapper_real.a, (const uint8_t *)(f) + 24) && \
     GEN_SLOT(st, ((const uint8_t *)(f))[15]) == v_be16((const uint8_t *)(f) + 32))
#define C03_HELLO_LEDGER(tx0, h0, live0, allocs0) \
    (g_led.tx_attempts == (tx0) + (V_ALLOC_OK(allocs0, 0) ? 1u : 0u) && g_led.tx_op[1] == (h0) + (V_ALLOC_OK(allocs0, 0) ? 1u : 0u) && \
     g_led.live == (live0) && g_led.allocs == (allocs0) + 1u)
#define C03_HELLO_STATE(st, f, real0, app0, gt0, gq0) \
    ((st)->mapper_known == 1 && v_mac_eq((st)->mapper_real.a, (real0).a) && v_mac_eq((st)->mapper_apparent.a, (app0).a) && \
     (st)->mapper_gen_topology == (gt0) && (st)->mapper_gen_quick == (gq0))

static void answerHello(void *inFrame, lltd_iface_state *st, void *iface_ctx)
__CPROVER_requires(V_R_OK(inFrame, 36) && ST_SHAPE(st))      /* base header + generation / station count of the Discover */
__CPROVER_requires(PRE_answerHello(st, inFrame)) /*@C03.accepted-discover-state C05.accepted-discover-state*/
__CPROVER_requires(iface_ctx == g_ctx) /*@C17.ctx-passed*/
__CPROVER_assigns(g_led, g_hc, st->mapper_seq, st->mapper_real, st->mapper_apparent, st->mapper_known, st->mapper_gen_topology, st->mapper_gen_quick)
__CPROVER_ensures(C03_HELLO_LEDGER(__CPROVER_old(g_led.tx_attempts), __CPROVER_old(g_led.tx_op[1]), __CPROVER_old(g_led.live), __CPROVER_old(g_led.allocs))) /*@C03.exactly-one-hello C19.hello-ledger C02.hello-single*/
__CPROVER_ensures(C03_HELLO_STATE(st, inFrame, __CPROVER_old(st->mapper_real), __CPROVER_old(st->mapper_apparent), __CPROVER_old(st->mapper_gen_topology), __CPROVER_old(st->mapper_gen_quick))) /*@C03.hello-state C05.hello-state*/
__CPROVER_ensures(st->mapper_seq == (V_ALLOC_OK(__CPROVER_old(g_led.allocs), 0) ? v_be16((const uint8_t *)inFrame + 30) : __CPROVER_old(st->mapper_seq))) /*@C03.hello-seq*/
;


/* =============================== C17 / C05 / C09: parseFrame ====================================== */
/* ghost: the record of the interface the frame arrived on (NULL before that interface's first frame) */
static lltd_iface_state *g_st;
/* Frame condition (C17): parseFrame may write the ledger, the record of ITS interface, that record's observation
 * nodes and cached icon - and nothing else.  In particular NOT the global list head g_iface_states, which every
 * receive thread shares without synchronisation, and no other interface's record. */
void parseFrame(void *frame, void *iface_ctx)
__CPROVER_requires(frame == NULL || PRE_frame(frame))
__CPROVER_requires(iface_ctx == g_ctx)
__CPROVER_requires(g_st == NULL || ST_WF(g_st))
__CPROVER_assigns(g_led)
__CPROVER_assigns(g_st != NULL: *g_st)
__CPROVER_assigns(LIST_TARGETS_C(g_st != NULL, g_st->see_list))
__CPROVER_assigns(g_st != NULL && g_st->small_icon != NULL: __CPROVER_object_whole(g_st->small_icon))
__CPROVER_frees(LIST_FREES_C(g_st != NULL, g_st->see_list))
__CPROVER_frees(g_st != NULL && g_st->small_icon != NULL: g_st->small_icon)
__CPROVER_ensures(g_st == NULL || ST_SHAPE(g_st)) /*@C19.wf-preserved C07.wf-preserved*/
;

#include "v_nocheck_pop.h"

#endif
